/* Small prime field F_PF with table-driven multiplication: every field operation is a tiny combinational circuit
 * (a constant 2^(2K)-entry table lookup, or a compare-and-subtract), so that polynomial identities over F_PF
 * are decided by unit propagation rather than by reasoning about multipliers and dividers. */
#ifndef SMALLF_H
#define SMALLF_H
#include <stdint.h>
#ifndef PF
#define PF 13
#endif
#if PF < 8
#define SFK 3
#elif PF < 16
#define SFK 4
#else
#define SFK 5
#endif
#define SFN (1 << SFK)
typedef uint8_t sf;
#define SF_M(a, b) (uint8_t)((((a) < PF) && ((b) < PF)) ? (((a) * (b)) % PF) : 0)
#define SF_R4(a, b) SF_M(a, b), SF_M(a, (b) + 1), SF_M(a, (b) + 2), SF_M(a, (b) + 3)
#define SF_R16(a, b) SF_R4(a, b), SF_R4(a, (b) + 4), SF_R4(a, (b) + 8), SF_R4(a, (b) + 12)
#if SFK == 3
#define SF_ROW(a) SF_R4(a, 0), SF_R4(a, 4)
#elif SFK == 4
#define SF_ROW(a) SF_R16(a, 0)
#else
#define SF_ROW(a) SF_R16(a, 0), SF_R16(a, 16)
#endif
#define SF_ROWS4(a) SF_ROW(a), SF_ROW((a) + 1), SF_ROW((a) + 2), SF_ROW((a) + 3)
#define SF_ROWS16(a) SF_ROWS4(a), SF_ROWS4((a) + 4), SF_ROWS4((a) + 8), SF_ROWS4((a) + 12)
static const uint8_t SF_MUL[SFN * SFN] = {
#if SFK == 3
	SF_ROWS4(0), SF_ROWS4(4)
#elif SFK == 4
	SF_ROWS16(0)
#else
	SF_ROWS16(0), SF_ROWS16(16)
#endif
};
#define SF_S(a, b) ((((b) < PF) && ((((a) * (b)) % PF) == 1)) ? (b) : 0)
#define SF_S8(a, b) (SF_S(a, b) + SF_S(a, (b) + 1) + SF_S(a, (b) + 2) + SF_S(a, (b) + 3) + SF_S(a, (b) + 4) + SF_S(a, (b) + 5) + SF_S(a, (b) + 6) + SF_S(a, (b) + 7))
#define SF_I(a) (uint8_t)(((a) < PF) ? (SF_S8(a, 0) + SF_S8(a, 8) + SF_S8(a, 16) + SF_S8(a, 24)) : 0)     /* the b with a b = 1, 0 for a = 0 */
#define SF_I4(a) SF_I(a), SF_I((a) + 1), SF_I((a) + 2), SF_I((a) + 3)
#define SF_I16(a) SF_I4(a), SF_I4((a) + 4), SF_I4((a) + 8), SF_I4((a) + 12)
static const uint8_t SF_INV[SFN] = {
#if SFK == 3
	SF_I4(0), SF_I4(4)
#elif SFK == 4
	SF_I16(0)
#else
	SF_I16(0), SF_I16(16)
#endif
};
static inline sf sf_mul(sf a, sf b) { return SF_MUL[(uint16_t)((((unsigned)a << SFK) | b) & (SFN * SFN - 1))]; }
static inline sf sf_inv(sf a) { return SF_INV[(uint8_t)(a & (SFN - 1))]; }
static inline sf sf_add(sf a, sf b) { unsigned s = (unsigned)a + b; return (sf)(s >= PF ? s - PF : s); }
static inline sf sf_sub(sf a, sf b) { return (sf)(a >= b ? a - b : a + PF - b); }
static inline sf sf_neg(sf a) { return (sf)(a ? PF - a : 0); }
#define SF_INV2 ((PF + 1) / 2)
static inline sf sf_haf(sf a) { return sf_mul(a, SF_INV2); }
#endif
