/* Harness helpers shared by all obligations. */
#ifndef VERIF_H
#define VERIF_H
#include <stdint.h>
#include <stddef.h>
#include <assert.h>

uint8_t  nondet_u8(void);
uint16_t nondet_u16(void);
uint32_t nondet_u32(void);
uint64_t nondet_u64(void);
int      nondet_int(void);
size_t   nondet_size(void);
_Bool    nondet_bool(void);

#define ASSUME(c) __CPROVER_assume(c)
#define CHECK(c, msg) __CPROVER_assert((c), msg)

/* Reachability witness: the WITNESS twin of every harness must *fail* here, otherwise the
 * obligation is vacuous (unsatisfiable assumptions or unreachable assertion). */
#ifdef WITNESS
#define V_REACH() __CPROVER_assert(0, "WITNESS reachability")
#define V_COVER(name) __CPROVER_assert(0, "WITNESS " name)     /* additional branch that must be reachable */
#else
#define V_REACH() ((void)0)
#define V_COVER(name) ((void)0)
#endif

/* arbitrary bytes */
static inline void v_havoc(void *p, size_t n) { __CPROVER_havoc_slice(p, n); }

#endif
