/* M6: same source, capacity constant scaled down (ASN1_OID_MAX_NODES 32 -> 6) */
#include <gmssl/asn1.h>
#undef ASN1_OID_MAX_NODES
#define ASN1_OID_MAX_NODES 6
