/* Pre-include shim for goto-cc builds of /repo/src units.
 * Keeps the real gmssl/error.h but silences the diagnostic macros: every error_print()
 * drags three string literals and the fprintf model into the formula (object-count and
 * time blow-up).  Diagnostic output is the subject of C19 only, which is built without
 * this shim. */
#include <stdio.h>
#include <stdlib.h>
#include <string.h>
#include <stdint.h>
#include <gmssl/error.h>
#undef error_print
#undef error_print_msg
#undef error_puts
#undef warning_print
#define error_print() ((void)0)
#define error_print_msg(fmt, ...) ((void)0)
#define error_puts(str) ((void)0)
#define warning_print() ((void)0)
