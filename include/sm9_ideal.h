/* interface of models/sm9_ideal.c (M7) for the harnesses */
#ifndef SM9_IDEAL_H
#define SM9_IDEAL_H
#define ID_MAXRND 3
#define ID_KDMAX 4
#define ID_KLEN 1
#define ID_KDQMAX 5
sf id_s(const sm9_z256_t a); void id_ws(sm9_z256_t r, sf v);
sf id_p1(const SM9_Z256_POINT *P); void id_wp1(SM9_Z256_POINT *P, sf d);
sf id_p2(const SM9_Z256_TWIST_POINT *P); void id_wp2(SM9_Z256_TWIST_POINT *P, sf d);
sf id_gt(const sm9_z256_fp12_t a); void id_wgt(sm9_z256_fp12_t r, sf d);
extern sf g_rnd[ID_MAXRND]; extern int g_nrnd, g_rnd_fail_at, g_kdf_queries;
#endif
