/* Verification-side shim (pre-included for selected units): a memcpy of a whole hash/HMAC context
 * (constant size == sizeof of that context type) is performed as a typed struct assignment.
 * Semantically identical (the types have no padding), but it keeps CBMC's constant propagation alive:
 * the byte-wise array_copy model of memcpy turned the M2 recorder's slot indices symbolic
 * (measured: 0.4 s / 23 MB with assignment vs > 120 s / 13 GB with memcpy). */
#ifndef CTXCOPY_SHIM_H
#define CTXCOPY_SHIM_H
#include <string.h>
#include <gmssl/sm3.h>
static inline void *v_copy_sm3_hmac(void *d, const void *s) { *(SM3_HMAC_CTX *)d = *(const SM3_HMAC_CTX *)s; return d; }
static inline void *v_copy_sm3(void *d, const void *s) { *(SM3_CTX *)d = *(const SM3_CTX *)s; return d; }
#define memcpy(d, s, n) \
	((__builtin_constant_p(n) && (n) == sizeof(SM3_HMAC_CTX)) ? v_copy_sm3_hmac((d), (s)) : \
	 (__builtin_constant_p(n) && (n) == sizeof(SM3_CTX)) ? v_copy_sm3((d), (s)) : (memcpy)((d), (s), (n)))
#endif
