/* M6: same source, TLS size constants scaled down so that symbolic offsets range over small arrays.
 * 16384 -> 64 (plaintext), 18432 -> 96 (ciphertext), 18437 -> 101 (record), 2048 -> 32 (certificate buffer). */
#include <gmssl/tls.h>
#undef TLS_MAX_PLAINTEXT_SIZE
#undef TLS_MAX_COMPRESSED_SIZE
#undef TLS_MAX_CIPHERTEXT_SIZE
#undef TLS_MAX_RECORD_SIZE
#undef TLS_MAX_CERTIFICATES_SIZE
#define TLS_MAX_PLAINTEXT_SIZE 64
#define TLS_MAX_COMPRESSED_SIZE 80
#define TLS_MAX_CIPHERTEXT_SIZE 96
#define TLS_MAX_RECORD_SIZE (TLS_RECORD_HEADER_SIZE + TLS_MAX_CIPHERTEXT_SIZE)
#define TLS_MAX_CERTIFICATES_SIZE 32
