#include <stdio.h>
#include <string.h>
#include <time.h>
#include <gmssl/sm2.h>
#include <gmssl/oid.h>
#include <gmssl/x509.h>
#include <gmssl/cms.h>
#include <gmssl/rand.h>
#include <gmssl/asn1.h>
static int mk(SM2_KEY *k, uint8_t *cert, size_t *certlen, const char *cn)
{
	uint8_t serial[20], name[256]; size_t namelen = 0; time_t nb, na; uint8_t *p = cert;
	sm2_key_generate(k); rand_bytes(serial, sizeof(serial));
	x509_name_set(name, &namelen, sizeof(name), "CN", "Beijing", "Haidian", "PKU", "CS", cn);
	time(&nb); x509_validity_add_days(&na, nb, 365);
	*certlen = 0;
	return x509_cert_sign_to_der(X509_version_v3, serial, sizeof(serial), OID_sm2sign_with_sm3, name, namelen, nb, na, name, namelen, k,
		NULL, 0, NULL, 0, NULL, 0, k, SM2_DEFAULT_ID, SM2_DEFAULT_ID_LENGTH, &p, certlen);
}
static int run(int nsign)
{
	SM2_KEY key[2]; static uint8_t cert[2][2048]; size_t certlen[2]; CMS_CERTS_AND_KEY signers[2];
	uint8_t data[48] = {1,2,3}; static uint8_t buf[8192]; uint8_t *p = buf; const uint8_t *cp = buf; size_t len = 0;
	for (int i = 0; i < 2; i++) { if (mk(&key[i], cert[i], &certlen[i], i ? "signer-two" : "signer-one") != 1) return -2; signers[i].certs = cert[i]; signers[i].certs_len = certlen[i]; signers[i].sign_key = &key[i]; }
	int content_type; const uint8_t *content, *certs, *crls, *si; size_t content_len, certslen, crlslen, silen;
	if (cms_signed_data_sign_to_der(signers, nsign, OID_cms_data, data, sizeof(data), NULL, 0, &p, &len) != 1) return -3;
	return cms_signed_data_verify_from_der(NULL, 0, NULL, 0, &content_type, &content, &content_len, &certs, &certslen, &crls, &crlslen, &si, &silen, &cp, &len);
}
int main(void)
{
	int r1 = run(1), r2 = run(2);
	printf("one signer : verify returned %d\ntwo signers: verify returned %d\n", r1, r2);
	return (r1 == 1 && r2 == 1) ? 0 : 1;
}
