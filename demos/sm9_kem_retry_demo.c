#include <stdio.h>
#include <string.h>
#include <gmssl/sm9.h>
int main(void)
{
	SM9_ENC_MASTER_KEY msk; SM9_ENC_KEY key; int bad = 0, n = 3000;
	sm9_enc_master_key_generate(&msk);
	sm9_enc_master_key_extract_key(&msk, "bob", 3, &key);
	for (int i = 0; i < n; i++) {
		uint8_t k1[1], k2[1]; SM9_Z256_POINT C;
		if (sm9_kem_encrypt(&msk, "bob", 3, 1, k1, &C) != 1) { printf("enc failed\n"); return 2; }
		int r = sm9_kem_decrypt(&key, "bob", 3, &C, 1, k2);
		if (r != 1 || k1[0] != k2[0]) { bad++; if (bad < 4) printf("iteration %d: decrypt ret %d, K %02x vs %02x\n", i, r, k1[0], k2[0]); }
	}
	printf("%d of %d encapsulations do not decapsulate to the same key\n", bad, n);
	return bad ? 1 : 0;
}
