#include <stdio.h>
#include <string.h>
#include <gmssl/sm4.h>
int main(void)
{
	SM4_CFB_CTX c; uint8_t key[16] = {1}, iv[16] = {2}, in[64] = {0}, out[80]; size_t dry = 0, l = 0;
	sm4_cfb_encrypt_init(&c, 3, key, iv);
	sm4_cfb_encrypt_update(&c, in, 1, out, &l);            /* one byte stays buffered */
	sm4_cfb_encrypt_update(&c, in, 32, NULL, &dry);        /* how much room do 32 more bytes need? */
	sm4_cfb_encrypt_update(&c, in, 32, out, &l);
	printf("dry run says %zu, update wrote %zu\n", dry, l);
	return l <= dry ? 0 : 1;
}
