#!/usr/bin/env python3
"""usage: run_check.py <property-id> [--tier quick|thorough] [--only <obligation-id-substring>]"""
import importlib, os, sys
sys.path.insert(0, os.path.dirname(os.path.abspath(__file__)))
from vlib import core

def main():
    if len(sys.argv) < 2:
        print(__doc__); return 2
    prop = sys.argv[1]
    tier = os.environ.get("VERIF_TIER", "quick")
    only = None
    a = sys.argv[2:]
    while a:
        if a[0] == "--tier": tier = a[1]; a = a[2:]
        elif a[0] == "--only": only = a[1]; a = a[2:]
        else: print(__doc__); return 2
    mod = importlib.import_module("obl." + prop)
    obs = mod.OBLIGATIONS
    if only:
        obs = [o for o in obs if only in o["id"]]
    return core.run_property(prop, obs, tier, note=getattr(mod, "NOTE", ""), level=getattr(mod, "LEVEL", "other"),
                             assumptions=getattr(mod, "ASSUMPTIONS", ()), trusted=getattr(mod, "TRUSTED", ()),
                             pre_hook=getattr(mod, "PRE_HOOK", None) if not only else None)

if __name__ == "__main__":
    sys.exit(main())
