#!/bin/bash
# usage: seedtest_wt.sh <seed dir name> <property> [--only substr] : like seedtest.sh but on a scratch worktree (leaves /repo untouched, so it can run next to other checks)
S=/verif/seeded/$1; shift
WT=/tmp/wt_seedtest_$$
git -C /repo worktree add -q --detach $WT HEAD || exit 2
cd $WT
if ! git apply $S/patch.diff 2>/dev/null && ! git apply --3way $S/patch.diff 2>/dev/null; then echo "PATCH DOES NOT APPLY: $S"; else
cd /verif && VERIF_REPO=$WT VERIF_OUT=/tmp/out_seedtest_$$ VERIF_BUILD=/tmp/build_seedtest_$$ VERIF_TO=${VERIF_TO:-400} python3 run_check.py "$@" 2>&1 | grep -E "VIOLATION|obligation=|SUMMARY|INCONCLUSIVE" | head -12
fi
cd /; git -C /repo worktree remove --force $WT; rm -rf /tmp/out_seedtest_$$ /tmp/build_seedtest_$$
