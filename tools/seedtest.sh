#!/bin/bash
# usage: seedtest.sh <seed dir name, e.g. C12-1> <property> [--only substr]   : applies the seeded change to /repo, runs the check, reverts
S=/verif/seeded/$1; shift
cd /repo || exit 2
git diff --quiet || { echo "/repo has local changes"; exit 2; }
if ! git apply $S/patch.diff 2>/dev/null && ! git apply --3way $S/patch.diff 2>/dev/null; then echo "PATCH DOES NOT APPLY: $S"; git reset -q --hard HEAD; exit 3; fi
cd /verif && VERIF_TO=${VERIF_TO:-400} python3 run_check.py "$@" 2>&1 | grep -E "VIOLATION|obligation=|SUMMARY|INCONCLUSIVE" | head -12
cd /repo && git reset -q --hard HEAD && git status --short | grep -v _build | head -3
