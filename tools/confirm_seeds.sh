#!/bin/bash
# Confirms seeded-change candidates: for each /tmp/seed_out/<ID>/<k>: patch applies to /repo HEAD, builds,
# existing suite still passes (50 stable tests), demo PASSes on the clean tree and FAILs with the patch.
# usage: confirm_seeds.sh ID...   (writes confirm.json next to each patch)
set -u
STABLE_N=50
for ID in "$@"; do
  WT=/tmp/wt_$ID
  git -C /repo worktree remove --force $WT 2>/dev/null
  git -C /repo worktree add -q --detach $WT HEAD || continue
  (cmake -G Ninja -B $WT/_build -S $WT >/dev/null 2>&1 && cmake --build $WT/_build -j6 >/dev/null 2>&1) || { echo "$ID clean build failed"; continue; }
  for K in 1 2 3; do
    D=/tmp/seed_out/$ID/$K
    [ -f $D/patch.diff ] || continue
    clean_out=$(cd $D && timeout 600 bash RUN.txt 2>&1 | tail -5); clean_rc=$?
    clean_rc=$(cd $D && timeout 600 bash RUN.txt >/dev/null 2>&1; echo $?)
    applies=1
    git -C $WT apply $D/patch.diff 2>/dev/null || applies=0
    tests_passed=-1; patched_rc=-1; build_ok=0
    if [ $applies = 1 ]; then
      if cmake --build $WT/_build -j6 >/dev/null 2>&1; then
        build_ok=1
        tests_passed=$(ctest --test-dir $WT/_build -j6 --timeout 900 2>&1 | grep -c " Passed ")
        patched_rc=$(cd $D && timeout 600 bash RUN.txt >/dev/null 2>&1; echo $?)
      fi
      git -C $WT checkout -- . ; cmake --build $WT/_build -j6 >/dev/null 2>&1
    fi
    ok=false
    if [ $applies = 1 ] && [ $build_ok = 1 ] && [ "$tests_passed" -ge $STABLE_N ] && [ "$clean_rc" = 0 ] && [ "$patched_rc" != 0 ]; then ok=true; fi
    printf '{"id":"%s/%s","base":"%s","applies":%s,"build_ok":%s,"tests_passed":%s,"demo_clean_rc":%s,"demo_patched_rc":%s,"confirmed":%s}\n' \
      $ID $K $(git -C /repo rev-parse --short HEAD) $applies $build_ok $tests_passed $clean_rc $patched_rc $ok | tee $D/confirm.json
  done
  git -C /repo worktree remove --force $WT
done
