#!/usr/bin/env python3
"""Inventory of writable static-lifetime objects (file-scope or function-local `static`) in the default-build units of
/repo/src, read from the goto symbol tables produced by goto-cc on this run.  Prints JSON {unit: [{name, type, file, line}]}."""
import json, os, subprocess, sys, tempfile
sys.path.insert(0, os.path.dirname(os.path.dirname(os.path.abspath(__file__))))
from vlib import core
SKIP_UNITS = {"rand_win.c", "rand_apple.c", "http_win.c", "sm3_avx2.c", "sm3_sse.c", "sm3_arm64.c", "sm4_aesni.c", "sm4_avx2.c", "sm4_ce.c", "sm4_cl.c",
              "sm4_arm64.c", "gf128_avx.c", "gf128_arm64.c", "rdrand.c", "sm2_blind.c", "sm2_commit.c", "sm2_elgamal.c", "sm2_key_share.c", "sm2_recover.c", "sm2_ring.c",
              "kyber.c", "rsa.c", "sm3_lms.c"}
def is_const(t):
    ns = t.get("namedSub", {})
    if "#constant" in ns: return True
    if t.get("id") == "array" and t.get("sub"):
        return is_const(t["sub"][0])
    return False
def inventory():
    res = {}
    with tempfile.TemporaryDirectory() as td:
        for fn in sorted(os.listdir(core.SRC)):
            if not fn.endswith(".c") or fn in SKIP_UNITS: continue
            obj = os.path.join(td, fn + ".gb")
            try:
                core.goto_cc_compile(os.path.join(core.SRC, fn), obj, [], True)
            except core.BuildError as e:
                res[fn] = [{"name": "<build error>", "type": str(e)[-200:]}]; continue
            out = subprocess.run(["goto-instrument", "--show-symbol-table", "--json-ui", obj], capture_output=True, text=True).stdout
            try: js = json.loads(out)
            except Exception: continue
            for item in js:
                if isinstance(item, dict) and "symbolTable" in item:
                    for name, s in item["symbolTable"].items():
                        if not s.get("isStaticLifetime") or s.get("isType") or s.get("isExtern"): continue
                        t = s.get("type", {})
                        if t.get("id") == "code" or name.startswith("__CPROVER") or "$object" in name or name.startswith("__func__") or "::__func__" in name: continue
                        loc = s.get("location", {}) if isinstance(s.get("location"), dict) else {}
                        f = loc.get("file", "")
                        if not f.startswith(core.SRC): continue        # objects defined in headers / builtins are not library state
                        if is_const(t): continue
                        if "const" in (s.get("prettyType") or "").split("[")[0].split("*")[0] and "*" not in (s.get("prettyType") or ""): continue
                        res.setdefault(fn, []).append({"name": name, "type": s.get("prettyType", t.get("id")), "line": loc.get("line", "")})
    return res
if __name__ == "__main__":
    print(json.dumps(inventory(), indent=1))
