#!/usr/bin/env python3
"""Regenerates MANIFEST.json from obl/*.py (claimed) and obl/not_applicable.json."""
import json, os, importlib, sys
V = os.path.dirname(os.path.dirname(os.path.abspath(__file__)))
sys.path.insert(0, V)
props = [json.loads(l) for l in open(os.path.join(V, "properties.jsonl"))]
na = json.load(open(os.path.join(V, "obl", "not_applicable.json")))
checks = []
not_app = []
for p in props:
    pid = p["id"]
    if os.path.exists(os.path.join(V, "obl", pid + ".py")) and pid not in na:
        mod = importlib.import_module("obl." + pid)
        checks.append({
            "property_id": pid,
            "quick_cmd": "python3 run_check.py %s --tier quick" % pid,
            "thorough_cmd": "python3 run_check.py %s --tier thorough" % pid,
            "evidence_file": "evidence/%s.json" % pid,
            "replay_cmd_template": "python3 tools/replay.py {path}",
            "engine": "cbmc",
            "level_claimed": {"category": getattr(mod, "LEVEL", "other"),
                              "text": getattr(mod, "LEVEL_TEXT", "bounded symbolic verification (CBMC) of the real translation units; every obligation is a solver verdict over all inputs inside the stated bounds"),
                              "design_ref": "DESIGN.md section 4 (%s)" % pid},
            "level_note": getattr(mod, "LEVEL_NOTE", "trusted: cbmc 6.11 + SAT/SMT back ends, goto-cc; the models listed per obligation in the evidence file"),
            "technique": getattr(mod, "TECHNIQUE", "bounded model checking of real C units with CBMC (SAT/SMT), models for environment/crypto primitives"),
        })
    else:
        not_app.append({"property_id": pid, "reason": na.get(pid, "no check built yet (work in progress)")})
man = {
    "version": 1,
    "setup_cmd": "python3 tools/setup_check.py",
    "hooks": {"guard": "GMSSL_VERIF", "enable": "no source hooks are needed: checks compile /repo/src units with goto-cc and replace functions at link level (goto-instrument --remove-function-body)",
              "baseline_off_cmd": "cmake -G Ninja -B /tmp/gmssl_baseline -S /repo && cmake --build /tmp/gmssl_baseline -j8 && ctest --test-dir /tmp/gmssl_baseline -j8 --timeout 900; rc=$?; rm -rf /tmp/gmssl_baseline; exit $rc",
              "source_commits": [], "add_only": True},
    "engines": [{"name": "cbmc", "path": "vlib/core.py", "serves_properties": [c["property_id"] for c in checks],
                 "kind_free_text": "goto-cc + goto-instrument + cbmc 6.11 (minisat/cadical/kissat/z3/cvc5), Python driver"}],
    "checks": checks,
    "not_applicable": not_app,
    "notes": "Every check rebuilds its goto binaries from /repo/src on each run. See DESIGN.md.",
}
json.dump(man, open(os.path.join(V, "MANIFEST.json"), "w"), indent=1)
print("claimed:", [c["property_id"] for c in checks]); print("not applicable:", [n["property_id"] for n in not_app])
