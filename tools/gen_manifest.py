#!/usr/bin/env python3
"""Regenerates MANIFEST.json from obl/*.py (claimed) and obl/not_applicable.json."""
import json, os, importlib, sys
V = os.path.dirname(os.path.dirname(os.path.abspath(__file__)))
sys.path.insert(0, V)
props = [json.loads(l) for l in open(os.path.join(V, "properties.jsonl"))]
na = json.load(open(os.path.join(V, "obl", "not_applicable.json")))
TEXT = {
 "C01": ("Bounded symbolic verification of src/sm2_sign.c: sign/verify algebra as an iff over a small-field instantiation, exact 256-bit range logic, strict DER on all inputs <= 12/20 bytes, ID binding, inductive nonce-store step.", "M4 small-field group model, ideal SM3; EC arithmetic below the stubs is C13's subject"),
 "C02": ("Bounded symbolic verification of sm2_do_decrypt (accept => GB/T 32918.4 conditions) and the SM2Cipher DER codec; encryption obligations are thorough-tier only; ECDH agreement and peer-share validation (uncompressed shares) over the small group model.", "M4 group model, ideal SM3 under the real sm2_kdf"),
 "C03": ("Padding/length logic of all six hashes from an arbitrary context state (exact), chunking for short messages, HMAC/KDF/PBKDF2/HKDF structure over an ideal hash/PRF. Compression functions are NOT compared with their standards.", "compression function = block recorder; SM3 = collision-free recorder"),
 "C04": ("CBC/CTR/CTR32/CFB/OFB of sm4_*.c against SP 800-38A references over an ideal block cipher (uninterpreted permutation), streaming and in-place variants, dry-run sizes (CFB also from an arbitrary context state). Primitives themselves not verified.", "sm4_encrypt as UF with inverse axioms; ENABLE_SMALL_FOOTPRINT block loops"),
 "C05": ("GCM (one-shot, streaming), CCM, CTR+HMAC: acceptance <=> full-length tag equality over exactly the authenticated data (ideal MAC probes), GHASH chain with uninterpreted multiplication. One known finding (IV not MACed in composite modes).", "ideal MAC / PRF assumption; bit-flip rejection holds modulo that assumption"),
 "C06": ("CBMC memory checks on exact-size objects for the listed decoders, record reception with arbitrary short reads, capacity obligations with scaled constants. Large parts of the input surface (X.509/CMS deep parsing, handshake byte streams) are outside.", "bounded input sizes (10-20 bytes for byte parsers), scaled TLS constants"),
 "C07": ("Real chain-walk and profile-check code over abstract certificates: accept <=> reference predicate for chains of 1..4(5) certificates, all attribute combinations.", "certificate parsing and signature primitive abstracted to arbitrary per-certificate facts"),
 "C08": ("Per-endpoint building blocks only: PRF / TLS1.3 label structure, record round trips, full-size fragment acceptance, in-order reassembly, and the inductive step of tls_send / tls_recv / tls_shutdown on one endpoint (any write / read chunking). Nothing about two live endpoints or the handshake drivers.", "ideal PRF; handshake drivers not encodable"),
 "C11": ("Record protection of TLCP/TLS1.2/TLS1.3: round trip, MAC/AEAD input coverage, padding, sequence-number binding, malformed lengths, over ideal CBC/MAC/AEAD layers; seq increment exact.", "ideal CBC table, ideal MAC probe, ideal AEAD; payloads <= 17/11 bytes quick"),
 "C12": ("Decision logic of point/scalar importers at full width with the curve equation as a recording oracle; key-share and private-key container paths.", "curve equation and decompression not verified"),
 "C13": ("Limb layer exact at full width; Montgomery reduction step of modp/modn mont_mul exact at full width with the 256x256 multiplier as an oracle; Jacobian point formulas over a small prime field against the affine group law; scalar-multiplication routes thorough-only. The 256-bit multiplier itself is not decided.", "small-field transfer argument (polynomial identities of degree <= 12 < 13); multiplier oracle"),
 "C14": ("Round trip / dry-run / canonicity of ASN.1 primitives (several exact), OID and SEQUENCE OF capacity, validators, time strings (1970-1980, 1999-2000, 2049-2051 quick; full range thorough), hex, PEM capacity, base64 streaming for every input and text cut point.", "bounded content sizes; base64 streaming with one representative content per length (symbolic contents give no verdict)"),
 "C15": ("CRL lookup = membership; x509_signed_verify acceptance conditions; extension encoder length consistency around DER length boundaries.", "ideal signature verifier; abstract entries"),
 "C16": ("Six theorems: signed-data and signed-and-enveloped verification (>= 1 SignerInfo, all verified over H(header || content)), signing side (digest input = DER of the emitted ContentInfo, SignerInfo i made with signer i's key), recipient matching, recipient scan of enveloped / signed-and-enveloped data (any recipient position), certificate lookup by exact issuer and serial.", "abstract DER parts; 2 signers, 5-byte content"),
 "C17": ("SM9 256-bit limb / Fp add-sub layer exact; real Fp2/Fp4/Fp12 and G1/G2 point formulas over small prime fields against their definitions (Fp4, Fp12, G2 over a generic base ring); real sign/verify, KEM, key exchange and key extraction over an ideal bilinear group with random-oracle hashes, incl. retry paths; MAC-then-decrypt control flow. Pairing bilinearity, Frobenius constants, 256-bit multiplier not decided.", "small fields F_5/F_7/F_13; ideal bilinear group of order 13; at most one retry"),
 "C18": ("Entropy-driven outputs and fail-closed behaviour for six randomised operations with a symbolic failing draw, plus the SM9 operations (sign, KEM, exchange steps 1A/1B) over the ideal bilinear group: ephemeral values are the entropy draws, failure at any draw is reported.", "rand_bytes / rand_range model; heavy arithmetic opaque or ideal"),
 "C19": ("No dumping helper reachable in seven secret-handling operations on any path (diagnostic monitor), incl. tls_send / tls_recv / tls_shutdown from any connection state. Handshake drivers (which do print secrets) not covered.", "error_print* macros reduced to no-ops (they print file/line only)"),
 "C20": ("Reduction: inventory of writable statics (auxiliary, syntactic) + operations meeting their specification from arbitrary static state (--nondet-static). Interleavings not explored.", "no schedule exploration"),
}
checks = []
not_app = []
for p in props:
    pid = p["id"]
    if os.path.exists(os.path.join(V, "obl", pid + ".py")) and pid not in na:
        mod = importlib.import_module("obl." + pid)
        checks.append({
            "property_id": pid,
            "quick_cmd": "python3 run_check.py %s --tier quick" % pid,
            "thorough_cmd": "python3 run_check.py %s --tier thorough" % pid,
            "evidence_file": "evidence/%s.json" % pid,
            "replay_cmd_template": "python3 tools/replay.py {path}",
            "engine": "cbmc",
            "level_claimed": {"category": getattr(mod, "LEVEL", "other"),
                              "text": TEXT.get(pid, ("bounded symbolic verification (CBMC)", ""))[0],
                              "design_ref": "DESIGN.md section 4 (%s)" % pid},
            "level_note": "trusted: cbmc 6.11 + SAT back ends, goto-cc; models per obligation in the evidence file. " + TEXT.get(pid, ("", ""))[1],
            "technique": getattr(mod, "TECHNIQUE", "bounded model checking of real C units with CBMC (SAT/SMT), models for environment/crypto primitives"),
        })
    else:
        not_app.append({"property_id": pid, "reason": na.get(pid, "no check built yet (work in progress)")})
man = {
    "version": 1,
    "setup_cmd": "python3 tools/setup_check.py",
    "hooks": {"guard": "GMSSL_VERIF", "enable": "no source hooks are needed: checks compile /repo/src units with goto-cc and replace functions at link level (goto-instrument --remove-function-body)",
              "baseline_off_cmd": "cmake -G Ninja -B /tmp/gmssl_baseline -S /repo && cmake --build /tmp/gmssl_baseline -j8 && ctest --test-dir /tmp/gmssl_baseline -j8 --timeout 900; rc=$?; rm -rf /tmp/gmssl_baseline; exit $rc",
              "source_commits": [], "add_only": True},
    "engines": [{"name": "cbmc", "path": "vlib/core.py", "serves_properties": [c["property_id"] for c in checks],
                 "kind_free_text": "goto-cc + goto-instrument + cbmc 6.11 (minisat/cadical/kissat/z3/cvc5), Python driver"}],
    "checks": checks,
    "not_applicable": not_app,
    "notes": "Every check rebuilds its goto binaries from /repo/src on each run. See DESIGN.md.",
}
json.dump(man, open(os.path.join(V, "MANIFEST.json"), "w"), indent=1)
print("claimed:", [c["property_id"] for c in checks]); print("not applicable:", [n["property_id"] for n in not_app])
