#!/bin/bash
# usage: import_seeds.sh <seed_out id, e.g. C17b> <property> <first new index>  : copies confirmed candidates /tmp/seed_out/<id>/<k> to /verif/seeded/<property>-<n>
ID=$1; P=$2; N=$3
for K in 1 2 3; do
  D=/tmp/seed_out/$ID/$K; [ -f $D/confirm.json ] || continue
  grep -q '"confirmed":true' $D/confirm.json || { echo "$ID/$K not confirmed"; continue; }
  T=/verif/seeded/$P-$N; mkdir -p $T
  cp $D/patch.diff $D/RUN.txt $D/confirm.json $T/; cp $D/demo.* $T/ 2>/dev/null
  python3 - "$D" "$T" <<'PY'
import json, sys
d, t = sys.argv[1], sys.argv[2]
m = json.load(open(d + "/meta.json")); c = json.load(open(d + "/confirm.json"))
out = {"property": m.get("property"), "summary": m.get("summary"), "clause_broken": m.get("clause_broken"), "needs_to_manifest": m.get("needs_to_manifest"),
       "origin": "written by a fresh sub-agent (second round) that was given only the property text, a scratch worktree of /repo and a note which functions an earlier batch had already touched",
       "confirmation": {"what_was_run": "tools/confirm_seeds.sh: git worktree of /repo HEAD at the time, demo on clean build, git apply patch.diff, cmake --build, ctest (50 stable tests must pass), demo again",
                        "base_commit": c.get("base"), "patch_applies": bool(c.get("applies")), "builds": bool(c.get("build_ok")), "suite_tests_passed_with_patch": c.get("tests_passed"),
                        "demo_exit_clean": c.get("demo_clean_rc"), "demo_exit_patched": c.get("demo_patched_rc"), "confirmed": c.get("confirmed")},
       "agent_reported": {"tests_passed": m.get("tests_passed"), "demo_clean": m.get("demo_clean"), "demo_patched": m.get("demo_patched")}}
json.dump(out, open(t + "/meta.json", "w"), indent=1)
PY
  echo "imported $ID/$K -> $P-$N"; N=$((N+1))
done
