#!/bin/bash
# Applies every seeded change in /verif/seeded to /repo in turn, runs the quick checks of the properties that could see it,
# records which obligations raise a VIOLATION, reverts.  Output: /verif/seeded/MATRIX.tsv   (works on its own worktree /tmp/wt_matrix with VERIF_REPO/VERIF_OUT, so /repo and /verif/evidence are not touched)
cd /verif
WT=/tmp/wt_matrix; git -C /repo worktree remove --force $WT 2>/dev/null; git -C /repo worktree add -q --detach $WT HEAD || exit 2
export VERIF_REPO=$WT VERIF_BUILD=/tmp/build_matrix VERIF_OUT=/tmp/out_matrix VERIF_JOBS=${MATRIX_JOBS:-8}
declare -A EXTRA=( [C11]="C11 C08" [C09]="C07" [C10]="C08 C11" [C16]="C16 C04 C02 C15" [C18]="C18 C01" [C19]="C19 C11 C08" [C12]="C12 C19" [C02]="C02 C12" [C08]="C08 C06" [C04]="C04 C05" [C05]="C05" [C06]="C06" )
OUT=/verif/seeded/MATRIX.tsv; [ -n "$RESUME" ] || : > $OUT; sed -i "/^done$/d" $OUT
for d in $(ls -d seeded/C*-* | sort -V); do
  s=$(basename $d); prop=${s%-*}
  grep -q "^$s	" $OUT && continue
  props="${EXTRA[$prop]:-$prop}"
  cd $WT; git diff --quiet || { echo "worktree dirty"; exit 2; }
  if ! git apply /verif/$d/patch.diff 2>/dev/null && ! git apply --3way /verif/$d/patch.diff 2>/dev/null; then git reset -q --hard HEAD; printf "%s\tNOAPPLY\t-\n" $s >> $OUT; continue; fi
  cd /verif; caught=""
  for p in $props; do
    [ -f obl/$p.py ] || continue
    res=$(VERIF_TO=300 python3 run_check.py $p 2>&1 | grep -E "^  obligation=|new writable" | sed 's/.*obligation=\([^ ]*\).*/\1/' | tr '\n' ',' )
    [ -n "$res" ] && caught="$caught$p:$res "
  done
  cd $WT; git reset -q --hard HEAD
  printf "%s\t%s\t%s\n" $s "$( [ -n "$caught" ] && echo CAUGHT || echo MISSED )" "$caught" >> $OUT
done
echo done >> $OUT
git -C /repo worktree remove --force $WT; rm -rf /tmp/build_matrix /tmp/out_matrix
