#!/usr/bin/env python3
"""Prints a markdown table from seeded/MATRIX.tsv and seeded/*/meta.json"""
import json, os, sys
V = os.path.dirname(os.path.dirname(os.path.abspath(__file__)))
rows = []
for l in open(os.path.join(V, "seeded", "MATRIX.tsv")):
    l = l.rstrip("\n")
    if not l or l == "done": continue
    parts = l.split("\t")
    seed, status = parts[0], parts[1]
    caught = parts[2] if len(parts) > 2 else ""
    mp = os.path.join(V, "seeded", seed, "meta.json")
    if not os.path.exists(mp): continue
    m = json.load(open(mp))
    obs = []
    for grp in caught.split():
        prop, _, lst = grp.partition(":")
        ids = [x for x in lst.split(",") if x]
        obs += ids
    short = ", ".join(obs[:3]) + (" (+%d more)" % (len(obs) - 3) if len(obs) > 3 else "")
    summ = (m.get("summary") or "").replace("|", "/").replace("\n", " ")
    rows.append((seed, status, short, summ[:150]))
n = len(rows); c = sum(1 for r in rows if r[1] == "CAUGHT")
print("| seed | result | detecting obligations (quick tier) | change |")
print("|---|---|---|---|")
for r in rows: print("| %s | %s | %s | %s |" % r)
print()
print("Detected by the quick tier: %d of %d confirmed seeded changes." % (c, n))
