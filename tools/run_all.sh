#!/bin/bash
# runs every claimed check of MANIFEST.json (quick tier) sequentially; prints one summary line per property
cd /verif
for p in $(python3 -c "import json; print(' '.join(c['property_id'] for c in json.load(open('MANIFEST.json'))['checks']))"); do
  s=$(date +%s); out=$(python3 run_check.py $p --tier ${1:-quick} 2>&1); rc=$?; e=$(date +%s)
  echo "$p rc=$rc $((e-s))s $(echo "$out" | grep SUMMARY)"; echo "$out" | grep -E "^INCONCLUSIVE|^VIOLATION|^KNOWN" | cut -c1-220
done
