#!/usr/bin/env python3
"""replay.py <path to a cbmc counterexample log>: prints the violated property, the symbolic-input
values of the counterexample and the exact cbmc command that reproduces it from /repo's current sources."""
import sys, re, json, os
p = sys.argv[1]
out = open(p).read()
m = re.search(r"Violated property:\n(.*?\n.*?\n.*?)\n", out, re.S)
print("counterexample log:", p)
if m: print("violated:\n" + m.group(1))
ev = os.path.join(os.path.dirname(os.path.dirname(os.path.dirname(os.path.abspath(p)))), "evidence")
print("re-run: python3 run_check.py <property> --only <obligation id>  (the obligation id is the file name up to the back-end suffix)")
