#!/usr/bin/env python3
"""setup: nothing to build ahead of time (checks compile from /repo on every run); verify the tools exist."""
import shutil, sys
missing = [t for t in ("cbmc", "goto-cc", "goto-instrument", "kissat", "z3", "cvc5", "gcc") if not shutil.which(t)]
if missing:
    print("missing tools:", missing); sys.exit(1)
print("tools ok")
