#!/usr/bin/env python3
"""dbg.py <prop> <obligation-id> [seconds] : build one obligation, run cbmc verbosely for N seconds, summarise loops/phases"""
import sys, os, importlib, shutil, subprocess, collections
sys.path.insert(0, os.path.dirname(os.path.dirname(os.path.abspath(__file__))))
from vlib import core
prop, oid = sys.argv[1], sys.argv[2]; secs = int(sys.argv[3]) if len(sys.argv) > 3 else 60
mod = importlib.import_module('obl.' + prop)
d = dict([o for o in mod.OBLIGATIONS if o['id'] == oid][0]); d['prop'] = prop
ob = core.Obligation(d)
bdir = '/tmp/dbg_b'; shutil.rmtree(bdir, ignore_errors=True); os.makedirs(bdir)
b = core.build_obligation(ob, bdir)
cmd = core.cbmc_cmd(ob, b, d.get('backend', 'minisat'))
cmd = [c for c in cmd]
i = cmd.index('--verbosity'); cmd[i + 1] = '9'
print(' '.join(cmd))
rc, out, wall, to, rss = core.sh(cmd, timeout=secs, mem_gb=16)
c = collections.Counter()
last = []
for l in out.splitlines():
    if l.startswith('Unwinding loop'):
        c[l.split()[2]] += 1
    elif not l.startswith('Not unwinding'):
        last.append(l)
print('timeout' if to else 'rc=%s' % rc, 'wall %.1f' % wall)
for k, v in c.most_common(12): print('  unwind', k, v)
print('\n'.join(last[-15:]))
