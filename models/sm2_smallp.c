/* M4' : small prime field instantiation of the mod-p layer of sm2_z256.c.  F_p' with p' = PF (prime, = 3 mod 4),
 * elements in limb 0, Montgomery radix 2 (mont(a) = 2a, mont_mul(a,b) = ab/2), table-driven multiplication
 * (include/smallf.h).  The real point formulas, the on-curve test and get_xy run on top.  SM2_Z256_MODP_MONT_ONE is
 * redirected to mont(1) = 2 by the harness. */
#include <stdio.h>
#include <string.h>
#include <gmssl/sm2_z256.h>
#include "verif.h"
#include "smallf.h"
static sf g(const uint64_t a[4]) { __CPROVER_assert(a[1] == 0 && a[2] == 0 && a[3] == 0 && a[0] < PF, "M4': field element reduced"); return (sf)a[0]; }
static void s(uint64_t r[4], sf v) { r[0] = v; r[1] = r[2] = r[3] = 0; }
void sm2_z256_modp_add(sm2_z256_t r, const sm2_z256_t a, const sm2_z256_t b) { s(r, sf_add(g(a), g(b))); }
void sm2_z256_modp_sub(sm2_z256_t r, const sm2_z256_t a, const sm2_z256_t b) { s(r, sf_sub(g(a), g(b))); }
void sm2_z256_modp_dbl(sm2_z256_t r, const sm2_z256_t a) { sf x = g(a); s(r, sf_add(x, x)); }
void sm2_z256_modp_tri(sm2_z256_t r, const sm2_z256_t a) { sf x = g(a); s(r, sf_add(sf_add(x, x), x)); }
void sm2_z256_modp_neg(sm2_z256_t r, const sm2_z256_t a) { s(r, sf_neg(g(a))); }
void sm2_z256_modp_haf(sm2_z256_t r, const sm2_z256_t a) { s(r, sf_haf(g(a))); }
void sm2_z256_modp_mont_mul(sm2_z256_t r, const sm2_z256_t a, const sm2_z256_t b) { s(r, sf_haf(sf_mul(g(a), g(b)))); }
void sm2_z256_modp_mont_sqr(sm2_z256_t r, const sm2_z256_t a) { sf x = g(a); s(r, sf_haf(sf_mul(x, x))); }
void sm2_z256_modp_to_mont(const sm2_z256_t a, uint64_t r[4]) { sf x = g(a); s(r, sf_add(x, x)); }
void sm2_z256_modp_from_mont(sm2_z256_t r, const sm2_z256_t a) { s(r, sf_haf(g(a))); }
void sm2_z256_modp_mont_inv(sm2_z256_t r, const sm2_z256_t a) { s(r, sf_mul(4 % PF, sf_inv(g(a)))); }   /* a = 2x -> 2/x = 4/a */
