/* M4' : small prime field instantiation of the mod-p layer of sm2_z256.c.  F_p' with p' = PF (prime, = 3 mod 4),
 * elements in limb 0, Montgomery radix 2 (mont(a) = 2a, mont_mul(a,b) = ab/2).  The real point formulas, the on-curve
 * test and get_xy run on top.  SM2_Z256_MODP_MONT_ONE is redirected to mont(1) = 2 by the harness. */
#include <stdio.h>
#include <string.h>
#include <gmssl/sm2_z256.h>
#include "verif.h"
#ifndef PF
#define PF 13
#endif
#define INV2 ((PF + 1) / 2)
typedef unsigned __CPROVER_bitvector[20] sv;   /* all intermediate values are < PF^2 * (PF+1)/2 < 2^20: narrow arithmetic keeps the SAT problem small */
static sv g(const uint64_t a[4]) { __CPROVER_assert(a[1] == 0 && a[2] == 0 && a[3] == 0 && a[0] < PF, "M4': field element reduced"); return (sv)a[0]; }
static void s(uint64_t r[4], sv v) { r[0] = (uint64_t)(v % PF); r[1] = r[2] = r[3] = 0; }
uint64_t smallp_inv(uint64_t a) { for (sv i = 1; i < PF; i++) if (((sv)a * i) % PF == 1) return (uint64_t)i; return 0; }
void sm2_z256_modp_add(sm2_z256_t r, const sm2_z256_t a, const sm2_z256_t b) { s(r, g(a) + g(b)); }
void sm2_z256_modp_sub(sm2_z256_t r, const sm2_z256_t a, const sm2_z256_t b) { s(r, g(a) + PF - g(b)); }
void sm2_z256_modp_dbl(sm2_z256_t r, const sm2_z256_t a) { s(r, 2 * g(a)); }
void sm2_z256_modp_tri(sm2_z256_t r, const sm2_z256_t a) { s(r, 3 * g(a)); }
void sm2_z256_modp_neg(sm2_z256_t r, const sm2_z256_t a) { s(r, PF - g(a)); }
void sm2_z256_modp_haf(sm2_z256_t r, const sm2_z256_t a) { s(r, g(a) * INV2); }
void sm2_z256_modp_mont_mul(sm2_z256_t r, const sm2_z256_t a, const sm2_z256_t b) { s(r, g(a) * g(b) * INV2); }
void sm2_z256_modp_mont_sqr(sm2_z256_t r, const sm2_z256_t a) { s(r, g(a) * g(a) * INV2); }
void sm2_z256_modp_to_mont(const sm2_z256_t a, uint64_t r[4]) { s(r, 2 * g(a)); }
void sm2_z256_modp_from_mont(sm2_z256_t r, const sm2_z256_t a) { s(r, g(a) * INV2); }
void sm2_z256_modp_mont_inv(sm2_z256_t r, const sm2_z256_t a) { s(r, 4 * (sv)smallp_inv((uint64_t)g(a))); }   /* a = 2x -> 2/x = 4/a */
