/* M4'' : small prime field instantiation of the mod-p layer of sm9_z256.c.  F_p' with p' = PF (prime, = 5 or 7 mod 8 so
 * that u^2 = -2 is irreducible), elements in limb 0, Montgomery radix 2 (mont(a) = 2a, mont_mul(a,b) = ab/2).  The real
 * Fp2/Fp4/Fp12 tower, the G1 and G2 (twist) point formulas, on-curve tests and get_xy run on top.  The Montgomery
 * constants of the unit (MONT_ONE, 2^512 mod p, MONT_FIVE, FP2_MONT_5U, FP4_MONT_ONE) are overwritten by the harness (setup());
 * to_mont / from_mont / mont_sqr stay the real functions (they are written in terms of mont_mul and those constants). */
#include <stdio.h>
#include <string.h>
#include <gmssl/sm9_z256.h>
#include "verif.h"
#include "smallf.h"
static sf g(const uint64_t a[4]) { __CPROVER_assert(a[1] == 0 && a[2] == 0 && a[3] == 0 && a[0] < PF, "M4'': field element reduced"); return (sf)a[0]; }
static void s(uint64_t r[4], sf v) { r[0] = v; r[1] = r[2] = r[3] = 0; }
void sm9_z256_modp_add(sm9_z256_t r, const sm9_z256_t a, const sm9_z256_t b) { s(r, sf_add(g(a), g(b))); }
void sm9_z256_modp_sub(sm9_z256_t r, const sm9_z256_t a, const sm9_z256_t b) { s(r, sf_sub(g(a), g(b))); }
void sm9_z256_modp_dbl(sm9_z256_t r, const sm9_z256_t a) { sf x = g(a); s(r, sf_add(x, x)); }
void sm9_z256_modp_tri(sm9_z256_t r, const sm9_z256_t a) { sf x = g(a); s(r, sf_add(sf_add(x, x), x)); }
void sm9_z256_modp_neg(sm9_z256_t r, const sm9_z256_t a) { s(r, sf_neg(g(a))); }
void sm9_z256_modp_haf(sm9_z256_t r, const sm9_z256_t a) { s(r, sf_haf(g(a))); }
void sm9_z256_modp_mont_mul(sm9_z256_t r, const sm9_z256_t a, const sm9_z256_t b) { s(r, sf_haf(sf_mul(g(a), g(b)))); }
void sm9_z256_modp_mont_inv(sm9_z256_t r, const sm9_z256_t a) { s(r, sf_mul(4 % PF, sf_inv(g(a)))); }   /* a = 2x -> 2/x = 4/a */
