#include <stdio.h>
#include <string.h>
#include "verif.h"
#include "sm3_rec.h"

REC_SLOT rec_slots[REC_SLOTS];
int rec_n_slots;
REC_FINISHED rec_fin[REC_FIN];
int rec_n_fin;
int rec_n_init;

/* context layout used by the model: digest[0] = magic, digest[1] = slot, nblocks = length */
static int new_slot(void)
{
	__CPROVER_assert(rec_n_slots < REC_SLOTS, "M2: recorder slot pool large enough");
	int s = rec_n_slots++;
	rec_slots[s].len = 0;
	return s;
}
void sm3_init(SM3_CTX *ctx)
{
	memset(ctx, 0, sizeof(*ctx));
	ctx->digest[0] = REC_MAGIC;
	ctx->digest[1] = (uint32_t)new_slot();
	ctx->nblocks = 0;
	rec_n_init++;
}
const uint8_t *rec_ctx_stream(const SM3_CTX *ctx, size_t *len)
{
	__CPROVER_assert(ctx->digest[0] == REC_MAGIC, "M2: hash context was initialised");
	*len = (size_t)ctx->nblocks;
	return rec_slots[ctx->digest[1]].buf;
}
void sm3_update(SM3_CTX *ctx, const uint8_t *data, size_t datalen)
{
	__CPROVER_assert(ctx->digest[0] == REC_MAGIC, "M2: hash context was initialised");
	if (datalen == 0) return;
	int s = (int)ctx->digest[1];
	size_t len = (size_t)ctx->nblocks;
	if (rec_slots[s].len != len) {          /* another copy of this context moved on: fork */
		int ns = new_slot();
		for (size_t i = 0; i < REC_CAP; i++) if (i < len) rec_slots[ns].buf[i] = rec_slots[s].buf[i];
		rec_slots[ns].len = len;
		s = ns;
		ctx->digest[1] = (uint32_t)ns;
	}
	__CPROVER_assert(len + datalen <= REC_CAP, "M2: recorder slot capacity large enough");
	/* guarded writes at concrete indices: cheap when len is concrete even if datalen is symbolic
	 * (a symbolic-size memcpy would make every later access to the slot symbolic) */
	for (size_t i = 0; i < REC_CAP; i++)
		if (i >= len && i < len + datalen) rec_slots[s].buf[i] = data[i - len];
	rec_slots[s].len = len + datalen;
	ctx->nblocks = len + datalen;
}
void sm3_finish(SM3_CTX *ctx, uint8_t dgst[32])
{
	__CPROVER_assert(ctx->digest[0] == REC_MAGIC, "M2: hash context was initialised");
	__CPROVER_assert(rec_n_fin < REC_FIN, "M2: finished-stream table large enough");
	int me = rec_n_fin++;
	rec_fin[me].slot = (int)ctx->digest[1];
	rec_fin[me].len = (size_t)ctx->nblocks;
	for (int i = 0; i < 32; i++) rec_fin[me].dgst[i] = nondet_u8();
	for (int j = 0; j < me; j++) {
		int same_d = 1, same_s = (rec_fin[j].len == rec_fin[me].len);
		for (int i = 0; i < 32; i++) if (rec_fin[j].dgst[i] != rec_fin[me].dgst[i]) same_d = 0;
		if (same_s) {
			const uint8_t *a = rec_slots[rec_fin[j].slot].buf, *b = rec_slots[rec_fin[me].slot].buf;
			for (size_t i = 0; i < REC_CAP; i++) if (i < rec_fin[me].len && a[i] != b[i]) same_s = 0;
		}
		ASSUME(same_d == same_s);
	}
	memcpy(dgst, rec_fin[me].dgst, 32);
}
