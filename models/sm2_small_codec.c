/* M4 (cont.): affine-coordinate import for the small-field group model: a (x,y) pair decodes to the unique index with
 * those table coordinates, (0,0) to infinity (return 0, as the real function), anything else is "not on the curve". */
#include <stdio.h>
#include <string.h>
#include <gmssl/sm2_z256.h>
#include "verif.h"
#include "sm2_small.h"
int g_from_bytes_calls;
int sm2_z256_point_from_bytes(SM2_Z256_POINT *P, const uint8_t in[64])
{
	g_from_bytes_calls++;
	uint64_t x = 0, y = 0; int small = 1;
	for (int i = 0; i < 24; i++) if (in[i] || in[32 + i]) small = 0;
	for (int i = 24; i < 32; i++) { x = (x << 8) | in[i]; y = (y << 8) | in[32 + i]; }
	if (small && x == 0 && y == 0) { mp_set(P, 0); return 0; }
	if (small) for (unsigned i = 1; i < SMALL_Q; i++) if (g_XT[i] == x && g_YT[i] == y) { mp_set(P, i); return 1; }
	memset(P, 0xEE, sizeof(*P));
	return -1;
}
