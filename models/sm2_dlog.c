/* C13-f model: the SM2 group replaced by its discrete-log image Z_q (q = DQ small prime): a point is its index
 * (X[0]), index 0 = infinity.  Point doubling/addition/negation become index arithmetic; the precomputed generator
 * table entry [i][j] is the index (j+1) * 2^(7 i) mod q.  The real scalar-multiplication routes (Booth recoding,
 * window loops, table look-ups, first-non-zero-digit handling) run on top with a full 256-bit scalar. */
#include <stdio.h>
#include <string.h>
#include <gmssl/sm2_z256.h>
#include "verif.h"
#ifndef DQ
#define DQ 13
#endif
typedef unsigned __CPROVER_bitvector[16] sv;
#define TAG 0x7A67ULL
uint64_t sm2_z256_pre_comp[37][64 * 4 * 2];
extern const uint64_t *SM2_Z256_MODP_MONT_ONE;
void dlog_init_table(void)
{
	sv pw = 1;                                     /* 2^(7 i) mod q */
	for (int i = 0; i < 37; i++) {
		for (int j = 0; j < 64; j++) {
			memset(&sm2_z256_pre_comp[i][j * 8], 0, 64);
			sm2_z256_pre_comp[i][j * 8] = (uint64_t)(((sv)(j + 1) * pw) % DQ);
			sm2_z256_pre_comp[i][j * 8 + 1] = TAG;
		}
		pw = (pw * (128 % DQ)) % DQ;
	}
}
void dlog_set(SM2_Z256_POINT *P, uint64_t idx, int normalised)
{
	memset(P, 0, sizeof(*P)); P->X[0] = idx; P->X[1] = TAG;
	/* Z = mont(1) for "affine" inputs (takes the add_affine branch of pre_compute), something else otherwise */
	if (idx) { if (normalised) memcpy(P->Z, SM2_Z256_MODP_MONT_ONE, 32); else P->Z[0] = 5; }
}
static sv gi(const SM2_Z256_POINT *P)
{
	if (P->X[0] == 0 && P->X[1] == 0) return 0;          /* memset(R, 0) = infinity */
	__CPROVER_assert(P->X[1] == TAG && P->X[0] < DQ, "dlog: valid point");
	return (sv)P->X[0];
}
static sv ga(const SM2_Z256_AFFINE_POINT *P) { __CPROVER_assert(P->x[1] == TAG && P->x[0] < DQ, "dlog: valid table entry"); return (sv)P->x[0]; }
static void put(SM2_Z256_POINT *R, sv idx) { memset(R, 0, sizeof(*R)); R->X[0] = (uint64_t)idx; R->X[1] = TAG; if (idx) R->Z[0] = 5; }
void sm2_z256_point_set_infinity(SM2_Z256_POINT *P) { put(P, 0); }
void sm2_z256_point_dbl(SM2_Z256_POINT *R, const SM2_Z256_POINT *A) { sv a = gi(A); put(R, (2 * a) % DQ); }
void sm2_z256_point_add(SM2_Z256_POINT *r, const SM2_Z256_POINT *a, const SM2_Z256_POINT *b) { sv x = gi(a), y = gi(b); put(r, (x + y) % DQ); }
void sm2_z256_point_sub(SM2_Z256_POINT *r, const SM2_Z256_POINT *a, const SM2_Z256_POINT *b) { sv x = gi(a), y = gi(b); put(r, (x + DQ - y) % DQ); }
void sm2_z256_point_neg(SM2_Z256_POINT *r, const SM2_Z256_POINT *a) { sv x = gi(a); put(r, (DQ - x) % DQ); }
void sm2_z256_point_copy_affine(SM2_Z256_POINT *R, const SM2_Z256_AFFINE_POINT *P) { put(R, ga(P)); }
void sm2_z256_point_add_affine(SM2_Z256_POINT *r, const SM2_Z256_POINT *a, const SM2_Z256_AFFINE_POINT *b) { sv x = gi(a), y = ga(b); put(r, (x + y) % DQ); }
void sm2_z256_point_sub_affine(SM2_Z256_POINT *r, const SM2_Z256_POINT *a, const SM2_Z256_AFFINE_POINT *b) { sv x = gi(a), y = ga(b); put(r, (x + DQ - y) % DQ); }
uint64_t dlog_idx(const SM2_Z256_POINT *P) { return (uint64_t)gi(P); }
