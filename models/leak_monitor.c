/* M5 (simplified): diagnostic-channel monitor.  Every library helper that dumps data to a FILE* (and the raw stdio
 * output functions) asserts that no secret-handling operation is in progress.  With the diagnostic macros of
 * gmssl/error.h reduced to no-ops (quiet.h: they only print file/line/function), any call that reaches these helpers
 * from inside a monitored operation is a data dump on stdout/stderr or another stream the caller did not designate. */
#include <stdio.h>
#include <stdint.h>
#include <stdarg.h>
int g_mon_active;
#define DUMP(what) __CPROVER_assert(!g_mon_active, "diagnostic dump (" what ") during a secret-handling operation")
int format_print(FILE *fp, int format, int indent, const char *str, ...) { DUMP("format_print"); return 1; }
int format_bytes(FILE *fp, int format, int indent, const char *str, const uint8_t *data, size_t datalen) { DUMP("format_bytes"); return 1; }
int format_string(FILE *fp, int fmt, int ind, const char *label, const uint8_t *d, size_t dlen) { DUMP("format_string"); return 1; }
int tls_trace(int format, int indent, const char *str, ...) { return 1; }   /* fixed strings only */
void print_der(const uint8_t *in, size_t inlen) { DUMP("print_der"); }
void print_bytes(const uint8_t *in, size_t inlen) { DUMP("print_bytes"); }
void print_nodes(const uint32_t *in, size_t inlen) { DUMP("print_nodes"); }
int printf(const char *fmt, ...) { DUMP("printf"); return 0; }
int fprintf(FILE *fp, const char *fmt, ...) { DUMP("fprintf"); return 0; }
int puts(const char *s) { DUMP("puts"); return 0; }
int fputs(const char *s, FILE *fp) { DUMP("fputs"); return 0; }
size_t fwrite(const void *p, size_t sz, size_t n, FILE *fp) { DUMP("fwrite"); return n; }
