/* M2: ideal-hash recorder for SM3.  sm3_init/update/finish are replaced by functions that record
 * the absorbed byte stream in append-only slots.  A context stores (slot, length); a by-value copy
 * of a context that is later extended differently forks into a fresh slot (copy-on-write), so
 * `saved = ctx; update(ctx); ctx = saved; update(ctx)` records two correct streams.
 * Digests are fresh symbolic values with the collision-freeness constraint
 *     digest_i == digest_j  <=>  stream_i == stream_j      (over all finished streams).
 * Harnesses keep lengths concrete by case-splitting symbolic lengths (cheap for CBMC). */
#ifndef SM3_REC_H
#define SM3_REC_H
#include <stdint.h>
#include <stddef.h>
#include <gmssl/sm3.h>
#ifndef REC_SLOTS
#define REC_SLOTS 8
#endif
#ifndef REC_CAP
#define REC_CAP 320
#endif
#ifndef REC_FIN
#define REC_FIN 8
#endif
#define REC_MAGIC 0x5ec0dedU

typedef struct { size_t len; uint8_t buf[REC_CAP]; } REC_SLOT;
extern REC_SLOT rec_slots[REC_SLOTS];
extern int rec_n_slots;
typedef struct { int slot; size_t len; uint8_t dgst[32]; } REC_FINISHED;
extern REC_FINISHED rec_fin[REC_FIN];
extern int rec_n_fin;
extern int rec_n_init;

/* stream currently absorbed by ctx */
const uint8_t *rec_ctx_stream(const SM3_CTX *ctx, size_t *len);
#endif
