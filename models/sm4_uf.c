/* M3: SM4 as an ideal block cipher.  E_k and D_k are uninterpreted functions over 128-bit blocks
 * with the inverse axioms instantiated at every call; the key schedule maps raw key bytes to a key
 * identity through another uninterpreted function (equal raw keys -> equal permutations).
 * SM4_KEY.rk[0] = key identity, rk[1] = direction (1 = encrypt schedule, 2 = decrypt schedule). */
#include <stdio.h>
#include <string.h>
#include <gmssl/sm4.h>
#include "verif.h"

typedef unsigned __CPROVER_bitvector[128] b128;
b128 __CPROVER_uninterpreted_sm4_E(uint32_t kid, b128 x);
b128 __CPROVER_uninterpreted_sm4_D(uint32_t kid, b128 y);
uint32_t __CPROVER_uninterpreted_sm4_kid(b128 raw);

unsigned g_sm4_block_calls;

static b128 load(const uint8_t *p) { b128 v = 0; for (int i = 0; i < 16; i++) v = (v << 8) | p[i]; return v; }
static void store(uint8_t *p, b128 v) { for (int i = 15; i >= 0; i--) { p[i] = (uint8_t)v; v >>= 8; } }

void sm4_set_encrypt_key(SM4_KEY *key, const uint8_t raw[16])
{ memset(key, 0, sizeof(*key)); key->rk[0] = __CPROVER_uninterpreted_sm4_kid(load(raw)); key->rk[1] = 1; }
void sm4_set_decrypt_key(SM4_KEY *key, const uint8_t raw[16])
{ memset(key, 0, sizeof(*key)); key->rk[0] = __CPROVER_uninterpreted_sm4_kid(load(raw)); key->rk[1] = 2; }

void sm4_encrypt(const SM4_KEY *key, const uint8_t in[16], uint8_t out[16])
{
	__CPROVER_assert(key->rk[1] == 1 || key->rk[1] == 2, "M3: SM4 key schedule was set");
	g_sm4_block_calls++;
	b128 x = load(in), y;
	if (key->rk[1] == 1) {
		y = __CPROVER_uninterpreted_sm4_E(key->rk[0], x);
		ASSUME(__CPROVER_uninterpreted_sm4_D(key->rk[0], y) == x);
	} else {
		y = __CPROVER_uninterpreted_sm4_D(key->rk[0], x);
		ASSUME(__CPROVER_uninterpreted_sm4_E(key->rk[0], y) == x);
	}
	store(out, y);
}
