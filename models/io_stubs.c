/* M1 (diagnostic part): src/debug.c formatting helpers as quiet stubs.  format_bytes/format_string
 * still touch the first and last byte they are handed, so an out-of-bounds (data,len) pair is
 * caught by CBMC's pointer checks. Not used by C19 (which monitors what is printed). */
#include <stdio.h>
#include <stdint.h>
#include <stdarg.h>
int format_print(FILE *fp, int format, int indent, const char *str, ...) { (void)fp; (void)str; return 1; }
int format_bytes(FILE *fp, int format, int indent, const char *str, const uint8_t *data, size_t datalen)
{
	if (datalen > (1 << 24)) return -1;
	if (datalen) { uint8_t a = data[0], b = data[datalen - 1]; (void)a; (void)b; }
	return 1;
}
int format_string(FILE *fp, int fmt, int ind, const char *label, const uint8_t *d, size_t dlen)
{
	if (dlen) { uint8_t a = d[0], b = d[dlen - 1]; (void)a; (void)b; }
	return 1;
}
int tls_trace(int format, int indent, const char *str, ...) { return 1; }
void print_der(const uint8_t *in, size_t inlen) { if (inlen) { uint8_t a = in[0], b = in[inlen - 1]; (void)a; (void)b; } }
void print_bytes(const uint8_t *in, size_t inlen) { if (inlen) { uint8_t a = in[0], b = in[inlen - 1]; (void)a; (void)b; } }
void print_nodes(const uint32_t *in, size_t inlen) { if (inlen) { uint32_t a = in[0], b = in[inlen - 1]; (void)a; (void)b; } }
