/* M4: small-field instantiation of the SM2 modular and group layer.
 * Group order q = SMALL_Q (prime); scalars and "mod n" values live in limb 0.
 * Montgomery radix R = 2 (mod q), so mixing Montgomery / plain domains changes results.
 * The group is its discrete-log image Z_q (point <-> index, index 0 = infinity); affine
 * coordinates come from the arbitrary tables g_XT/g_YT chosen by the harness (symbolic). */
#ifndef SM2_SMALL_H
#define SM2_SMALL_H
#include <stdint.h>
#include <gmssl/sm2_z256.h>
#ifndef SMALL_Q
#define SMALL_Q 13
#endif
#define SMALL_INV2 ((SMALL_Q + 1) / 2)
#define MP_TAG 0x5A5A5A5A5A5A5A5AULL

extern uint64_t g_XT[SMALL_Q]; /* x-coordinate of [i]G, i = 1..q-1, values < 2q ("p < 2n") */
extern uint64_t g_YT[SMALL_Q];
extern uint64_t g_last_k;      /* ghost: last nonce handed out by sm2_z256_rand_range */
extern unsigned g_rand_calls;  /* ghost: number of rand_range calls */
extern int g_rand_fail_at;     /* fault schedule: call index that fails (-1 = never) */
extern unsigned g_mulgen_calls;
extern uint64_t g_mulgen_last_k;

/* hook defined by each harness: called at the start of every rand_range call (index = calls so far) */
void small_on_rand(unsigned call_index);
void small_init_tables(void);  /* nondet tables with x(P)=x(-P), y(-P) != y(P), x injective up to sign */
static inline uint64_t mp_idx(const SM2_Z256_POINT *P) { return P->X[0]; }
void mp_set(SM2_Z256_POINT *P, uint64_t idx);
int mp_valid(const SM2_Z256_POINT *P);
static inline int small_scalar_ok(const uint64_t a[4]) { return a[1] == 0 && a[2] == 0 && a[3] == 0; }
#endif
