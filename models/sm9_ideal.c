/* M7 : ideal bilinear group for the SM9 protocol layer (src/sm9_sign.c, sm9_enc.c, sm9_exch.c, sm9_key.c).
 * G1, G2, GT are cyclic groups of the small prime order SQ, every element is represented by its discrete logarithm
 * (to the base P1, P2, e(P1,P2)); e([a]P1, [b]P2) = gT^(ab).  The only relations that hold are the ones bilinearity
 * gives (generic group model).  Scalars are integers mod SQ in limb 0.  SM3 is replaced at call level by an injective
 * recorder of (length, first byte, last byte) per update - every value hashed by the protocol code in this model is
 * determined by these - and H1/H2/KDF outputs are a lazily sampled random function of the recorded transcript.
 * sm9_z256_rand_range returns an arbitrary value below the range and records it. */
#include <stdio.h>
#include <string.h>
#include <gmssl/sm9.h>
#include <gmssl/sm3.h>
#include "verif.h"
#ifndef SQ
#define SQ 13
#endif
#define PF SQ
#include "smallf.h"
#include "sm9_ideal.h"
static const sm9_z256_t ORDER = { SQ, 0, 0, 0 };
static SM9_Z256_POINT GEN1; static SM9_Z256_TWIST_POINT GEN2;
const uint64_t *sm9_z256_order(void) { return ORDER; }
static int red(const uint64_t a[4]) { return a[0] < SQ && a[1] == 0 && a[2] == 0 && a[3] == 0; }
sf id_s(const sm9_z256_t a) { __CPROVER_assert(red(a), "M7: scalar reduced mod n"); return (sf)a[0]; }
void id_ws(sm9_z256_t r, sf v) { r[0] = v; r[1] = r[2] = r[3] = 0; }
sf id_p1(const SM9_Z256_POINT *P) { __CPROVER_assert(red(P->X), "M7: well-formed G1 element"); return (sf)P->X[0]; }
void id_wp1(SM9_Z256_POINT *P, sf d) { memset(P, 0, sizeof(*P)); P->X[0] = d; P->Z[0] = d ? 1 : 0; }
sf id_p2(const SM9_Z256_TWIST_POINT *P) { __CPROVER_assert(red(P->X[0]), "M7: well-formed G2 element"); return (sf)P->X[0][0]; }
void id_wp2(SM9_Z256_TWIST_POINT *P, sf d) { memset(P, 0, sizeof(*P)); P->X[0][0] = d; P->Z[0][0] = d ? 1 : 0; }
sf id_gt(const sm9_z256_fp12_t a) { __CPROVER_assert(red(a[0][0][0]), "M7: well-formed GT element"); return (sf)a[0][0][0][0]; }
void id_wgt(sm9_z256_fp12_t r, sf d) { memset(r, 0, sizeof(sm9_z256_fp12_t)); r[0][0][0][0] = d; }
const SM9_Z256_POINT *sm9_z256_generator(void) { id_wp1(&GEN1, 1); return &GEN1; }
const SM9_Z256_TWIST_POINT *sm9_z256_twist_generator(void) { id_wp2(&GEN2, 1); return &GEN2; }
/* scalars */
void sm9_z256_modn_add(sm9_z256_t r, const sm9_z256_t a, const sm9_z256_t b) { id_ws(r, sf_add(id_s(a), id_s(b))); }
void sm9_z256_modn_sub(sm9_z256_t r, const sm9_z256_t a, const sm9_z256_t b) { id_ws(r, sf_sub(id_s(a), id_s(b))); }
void sm9_z256_modn_mul(sm9_z256_t r, const sm9_z256_t a, const sm9_z256_t b) { id_ws(r, sf_mul(id_s(a), id_s(b))); }
void sm9_z256_modn_inv(sm9_z256_t r, const sm9_z256_t a) { id_ws(r, sf_inv(id_s(a))); }
/* entropy */
sf g_rnd[ID_MAXRND]; int g_nrnd; int g_rnd_fail_at = -1;
int sm9_z256_rand_range(sm9_z256_t r, const sm9_z256_t range)
{
	__CPROVER_assume(g_nrnd < ID_MAXRND);                      /* bound: at most ID_MAXRND draws (= retries) per run */
	if (g_nrnd == g_rnd_fail_at) { g_nrnd++; return -1; }    /* the entropy source fails at this draw: r is left unfilled */
	sf v = nondet_u8(); __CPROVER_assume(v < range[0]);
	g_rnd[g_nrnd++] = v; id_ws(r, v);
	return 1;
}
/* G1 */
void sm9_z256_point_mul(SM9_Z256_POINT *R, const sm9_z256_t k, const SM9_Z256_POINT *P) { id_wp1(R, sf_mul(id_s(k), id_p1(P))); }
void sm9_z256_point_mul_generator(SM9_Z256_POINT *R, const sm9_z256_t k) { id_wp1(R, id_s(k)); }
void sm9_z256_point_add(SM9_Z256_POINT *R, const SM9_Z256_POINT *P, const SM9_Z256_POINT *Q) { id_wp1(R, sf_add(id_p1(P), id_p1(Q))); }
void sm9_z256_point_sub(SM9_Z256_POINT *R, const SM9_Z256_POINT *P, const SM9_Z256_POINT *Q) { id_wp1(R, sf_sub(id_p1(P), id_p1(Q))); }
int sm9_z256_point_is_on_curve(const SM9_Z256_POINT *P) { return red(P->X) ? 1 : 0; }
int sm9_z256_point_equ(const SM9_Z256_POINT *P, const SM9_Z256_POINT *Q) { return id_p1(P) == id_p1(Q); }
int sm9_z256_point_to_uncompressed_octets(const SM9_Z256_POINT *P, uint8_t octets[65]) { memset(octets, 0, 65); octets[0] = 4; octets[1] = id_p1(P); return 1; }
int sm9_z256_point_from_uncompressed_octets(SM9_Z256_POINT *P, const uint8_t octets[65]) { if (octets[0] != 4 || octets[1] >= SQ) return -1; id_wp1(P, octets[1]); return 1; }
/* G2 */
void sm9_z256_twist_point_mul(SM9_Z256_TWIST_POINT *R, const sm9_z256_t k, const SM9_Z256_TWIST_POINT *P) { id_wp2(R, sf_mul(id_s(k), id_p2(P))); }
void sm9_z256_twist_point_mul_generator(SM9_Z256_TWIST_POINT *R, const sm9_z256_t k) { id_wp2(R, id_s(k)); }
void sm9_z256_twist_point_add_full(SM9_Z256_TWIST_POINT *R, const SM9_Z256_TWIST_POINT *P, const SM9_Z256_TWIST_POINT *Q) { id_wp2(R, sf_add(id_p2(P), id_p2(Q))); }
/* GT and the pairing */
void sm9_z256_pairing(sm9_z256_fp12_t r, const SM9_Z256_TWIST_POINT *Q, const SM9_Z256_POINT *P) { id_wgt(r, sf_mul(id_p2(Q), id_p1(P))); }
void sm9_z256_fp12_pow(sm9_z256_fp12_t r, const sm9_z256_fp12_t a, const sm9_z256_t k) { id_wgt(r, sf_mul(id_gt(a), id_s(k))); }
void sm9_z256_fp12_mul(sm9_z256_fp12_t r, const sm9_z256_fp12_t a, const sm9_z256_fp12_t b) { id_wgt(r, sf_add(id_gt(a), id_gt(b))); }
void sm9_z256_fp12_to_bytes(const sm9_z256_fp12_t a, uint8_t buf[32 * 12]) { memset(buf, 0, 32 * 12); buf[0] = id_gt(a); }
/* SM3 : injective transcript recorder (items of (len, first, last)); the digest IS the transcript */
#define MAXIT 10
void sm3_init(SM3_CTX *ctx) { memset(ctx, 0, sizeof(*ctx)); }
void sm3_update(SM3_CTX *ctx, const uint8_t *data, size_t len)
{
	if (len == 0) return;
	__CPROVER_assert(ctx->num < MAXIT, "M7: at most 10 updates per hash");
	__CPROVER_assert(len <= 2 || len == 4 || len == 64 || len == 384, "M7: hashed item is determined by (length, first byte, last byte)");
	if (len == 64) __CPROVER_assert(data[1] == 0 && data[63] == 0, "M7: 64-byte item is an encoded G1 point");
	size_t k = ctx->num++;
	ctx->block[3 * k] = (uint8_t)(len == 384 ? 0xf0 : len); ctx->block[3 * k + 1] = data[0]; ctx->block[3 * k + 2] = data[len - 1];
}
void sm3_finish(SM3_CTX *ctx, uint8_t dgst[32]) { dgst[0] = (uint8_t)ctx->num; memcpy(dgst + 1, ctx->block, 31); }
/* lazily sampled random functions */
#define RO_MAX 6
static uint8_t ro_key[RO_MAX][32]; static sf ro_val[RO_MAX]; static int ro_n;
void sm9_z256_modn_from_hash(sm9_z256_t h, const uint8_t Ha[64])
{
	/* Ha = Hv(prefix || Z || 00000001) || Hv(prefix || Z || 00000002): both halves record the same transcript up to the counter */
	uint8_t n = Ha[0];
	__CPROVER_assert(n >= 2 && n <= MAXIT && Ha[32] == n, "M7: H1/H2 hash two transcripts of equal length");
	for (int i = 1; i < 32; i++) if (i != 3 * (n - 1) + 3) __CPROVER_assert(Ha[i] == Ha[32 + i], "M7: H1/H2 halves differ only in the counter");
	__CPROVER_assert(Ha[3 * (n - 1) + 1] == 4 && Ha[3 * (n - 1) + 3] == 1 && Ha[32 + 3 * (n - 1) + 3] == 2, "M7: counters 1 and 2");
	for (int k = 0; k < RO_MAX; k++) if (k < ro_n && memcmp(ro_key[k], Ha, 32) == 0) { id_ws(h, ro_val[k]); return; }
	__CPROVER_assume(ro_n < RO_MAX);
	sf v = nondet_u8(); __CPROVER_assume(v >= 1 && v < SQ);     /* H(Z, n) is in [1, n-1] */
	memcpy(ro_key[ro_n], Ha, 32); ro_val[ro_n++] = v; id_ws(h, v);
}
static uint8_t kd_key[ID_KDMAX][32]; static uint8_t kd_val[ID_KDMAX][ID_KLEN]; static int kd_n; int g_kdf_queries;
void sm3_kdf_init(SM3_KDF_CTX *ctx, size_t outlen) { sm3_init(&ctx->sm3_ctx); ctx->outlen = outlen; }
void sm3_kdf_update(SM3_KDF_CTX *ctx, const uint8_t *in, size_t inlen) { sm3_update(&ctx->sm3_ctx, in, inlen); }
void sm3_kdf_finish(SM3_KDF_CTX *ctx, uint8_t *out)
{
	uint8_t key[32];
	__CPROVER_assert(ctx->outlen == ID_KLEN, "M7: KDF output length fixed by the harness");
	sm3_finish(&ctx->sm3_ctx, key);
	__CPROVER_assert(g_kdf_queries < ID_KDQMAX, "M7: the KDF is evaluated more often than a terminating run with one retry needs (non-terminating retry loop?)");
	__CPROVER_assume(g_kdf_queries < ID_KDQMAX);
	g_kdf_queries++;
	for (int k = 0; k < ID_KDMAX; k++) if (k < kd_n && memcmp(kd_key[k], key, 32) == 0) { memcpy(out, kd_val[k], ID_KLEN); return; }
	__CPROVER_assume(kd_n < ID_KDMAX);                       /* bound: at most ID_KDMAX distinct KDF inputs (= retries) per run */
	for (int i = 0; i < ID_KLEN; i++) kd_val[kd_n][i] = nondet_u8();
	memcpy(kd_key[kd_n], key, 32); memcpy(out, kd_val[kd_n], ID_KLEN); kd_n++;
}
