/* gmssl/mem.h helpers (src/mem.c is tiny; these are straight re-statements so that the obligations do
 * not depend on the volatile-pointer tricks CBMC models poorly). */
#include <stddef.h>
#include <stdint.h>
#include <string.h>
void memxor(void *r, const void *a, size_t len) { uint8_t *pr = r; const uint8_t *pa = a; for (size_t i = 0; i < len; i++) pr[i] ^= pa[i]; }
void gmssl_memxor(void *r, const void *a, const void *b, size_t len)
{ uint8_t *pr = r; const uint8_t *pa = a, *pb = b; for (size_t i = 0; i < len; i++) pr[i] = pa[i] ^ pb[i]; }
int gmssl_secure_memcmp(const volatile void *in_a, const volatile void *in_b, size_t len)
{ const volatile uint8_t *a = in_a, *b = in_b; uint8_t x = 0; for (size_t i = 0; i < len; i++) x |= a[i] ^ b[i]; return x; }
void gmssl_secure_clear(void *ptr, size_t len) { memset(ptr, 0, len); }
int mem_is_zero(const uint8_t *buf, size_t len) { int ret = 1; for (size_t i = 0; i < len; i++) if (buf[i]) ret = 0; return ret; }
