#include <stdio.h>
#include <string.h>
#include <gmssl/sm2_z256.h>
#include "verif.h"
#include "sm2_small.h"

uint64_t g_XT[SMALL_Q];
uint64_t g_YT[SMALL_Q];
uint64_t g_last_k;
unsigned g_rand_calls;
int g_rand_fail_at = -1;
unsigned g_mulgen_calls;
uint64_t g_mulgen_last_k;

static const uint64_t Q_[4] = { SMALL_Q, 0, 0, 0 };
static const uint64_t QM1_[4] = { SMALL_Q - 1, 0, 0, 0 };

const uint64_t *sm2_z256_order(void) { return Q_; }
const uint64_t *sm2_z256_order_minus_one(void) { return QM1_; }

void small_init_tables(void)
{
	g_XT[0] = 0; g_YT[0] = 0;
	for (unsigned i = 1; i < SMALL_Q; i++) {
		uint64_t x = nondet_u64(), y = nondet_u64();
		ASSUME(x < 2 * SMALL_Q && y < 2 * SMALL_Q);
		g_XT[i] = x; g_YT[i] = y;
	}
	for (unsigned i = 1; i < SMALL_Q; i++) {
		ASSUME(g_XT[i] == g_XT[SMALL_Q - i]);
		ASSUME(g_YT[i] != g_YT[SMALL_Q - i]);
		for (unsigned j = i + 1; j < SMALL_Q; j++)
			if (j != SMALL_Q - i) ASSUME(g_XT[i] != g_XT[j]);
	}
}

static void setv(uint64_t r[4], uint64_t v) { r[0] = v; r[1] = 0; r[2] = 0; r[3] = 0; }
/* operands of the modular layer must be reduced scalars: that is the interface contract */
static uint64_t getv(const uint64_t a[4])
{
	__CPROVER_assert(a[1] == 0 && a[2] == 0 && a[3] == 0 && a[0] < SMALL_Q, "M4: modn operand reduced (< n)");
	return a[0];
}
static uint64_t inv_q(uint64_t a)
{
	/* a^(q-2) mod q by table-free search: q is tiny */
	for (uint64_t i = 1; i < SMALL_Q; i++)
		if ((a * i) % SMALL_Q == 1) return i;
	return 0; /* a == 0: caller's problem, as in the real code (0^(n-2) = 0) */
}

void sm2_z256_modn_add(sm2_z256_t r, const sm2_z256_t a, const sm2_z256_t b) { setv(r, (getv(a) + getv(b)) % SMALL_Q); }
void sm2_z256_modn_sub(sm2_z256_t r, const sm2_z256_t a, const sm2_z256_t b) { setv(r, (getv(a) + SMALL_Q - getv(b)) % SMALL_Q); }
void sm2_z256_modn_neg(sm2_z256_t r, const sm2_z256_t a) { setv(r, (SMALL_Q - getv(a)) % SMALL_Q); }
void sm2_z256_modn_mul(sm2_z256_t r, const sm2_z256_t a, const sm2_z256_t b) { setv(r, (getv(a) * getv(b)) % SMALL_Q); }
void sm2_z256_modn_sqr(sm2_z256_t r, const sm2_z256_t a) { setv(r, (getv(a) * getv(a)) % SMALL_Q); }
void sm2_z256_modn_inv(sm2_z256_t r, const sm2_z256_t a) { setv(r, inv_q(getv(a))); }
/* Montgomery domain with R = 2: mont(a) = 2a, mont_mul(a,b) = a*b/2 */
void sm2_z256_modn_to_mont(const sm2_z256_t a, uint64_t r[4]) { setv(r, (2 * getv(a)) % SMALL_Q); }
void sm2_z256_modn_from_mont(sm2_z256_t r, const sm2_z256_t a) { setv(r, (getv(a) * SMALL_INV2) % SMALL_Q); }
void sm2_z256_modn_mont_mul(sm2_z256_t r, const sm2_z256_t a, const sm2_z256_t b) { setv(r, (getv(a) * getv(b) * SMALL_INV2) % SMALL_Q); }
void sm2_z256_modn_mont_sqr(sm2_z256_t r, const sm2_z256_t a) { setv(r, (getv(a) * getv(a) * SMALL_INV2) % SMALL_Q); }
void sm2_z256_modn_mont_inv(sm2_z256_t r, const sm2_z256_t a)
{	/* a = 2x  ->  2 * x^-1 = 4 * a^-1 */
	setv(r, (4 * inv_q(getv(a))) % SMALL_Q);
}

int sm2_z256_rand_range(sm2_z256_t r, const sm2_z256_t range)
{
	unsigned me = g_rand_calls++;
	small_on_rand(me);
	if (g_rand_fail_at >= 0 && me == (unsigned)g_rand_fail_at) {
		/* entropy failure: output buffer left with unspecified contents */
		r[0] = nondet_u64(); r[1] = nondet_u64(); r[2] = nondet_u64(); r[3] = nondet_u64();
		return -1;
	}
	__CPROVER_assert(range[1] == 0 && range[2] == 0 && range[3] == 0 && range[0] > 0, "M4: rand_range bound is small");
	uint64_t k = nondet_u64();
	ASSUME(k < range[0]);
	setv(r, k);
	g_last_k = k;
	return 1;
}

/* ---- group = Z_q ---- */
void mp_set(SM2_Z256_POINT *P, uint64_t idx)
{
	memset(P, 0, sizeof(*P));
	P->X[0] = idx; P->X[1] = MP_TAG; P->Z[0] = (idx != 0);
}
int mp_valid(const SM2_Z256_POINT *P)
{
	/* memset(R,0) is the library's own encoding of infinity */
	if (P->X[0] == 0 && P->X[1] == 0 && P->Z[0] == 0) return 1;
	return P->X[1] == MP_TAG && P->X[0] < SMALL_Q;
}
static uint64_t gi(const SM2_Z256_POINT *P)
{
	__CPROVER_assert(mp_valid(P), "M4: point argument is a valid model point");
	return P->X[0];
}
static uint64_t scal(const uint64_t k[4])
{	/* scalars may be any small value (k < 2^64 here); reduce */
	__CPROVER_assert(k[1] == 0 && k[2] == 0 && k[3] == 0, "M4: scalar is small");
	return k[0] % SMALL_Q;
}
void sm2_z256_point_set_infinity(SM2_Z256_POINT *P) { mp_set(P, 0); }
int sm2_z256_point_is_at_infinity(const SM2_Z256_POINT *P) { return gi(P) == 0; }
int sm2_z256_point_is_on_curve(const SM2_Z256_POINT *P) { return mp_valid(P); }
void sm2_z256_point_mul_generator(SM2_Z256_POINT *R, const sm2_z256_t k)
{
	g_mulgen_calls++; g_mulgen_last_k = k[0];
	mp_set(R, scal(k));
}
void sm2_z256_point_mul(SM2_Z256_POINT *R, const sm2_z256_t k, const SM2_Z256_POINT *P) { uint64_t i = gi(P); mp_set(R, (scal(k) * i) % SMALL_Q); }
void sm2_z256_point_mul_pre_compute(const SM2_Z256_POINT *P, SM2_Z256_POINT T[16])
{
	uint64_t i = gi(P);
	for (int j = 0; j < 16; j++) mp_set(&T[j], ((uint64_t)(j + 1) * i) % SMALL_Q);
}
void sm2_z256_point_mul_ex(SM2_Z256_POINT *R, const uint64_t k[4], const SM2_Z256_POINT *T) { uint64_t i = gi(&T[0]); mp_set(R, (scal(k) * i) % SMALL_Q); }
void sm2_z256_point_mul_sum(SM2_Z256_POINT *R, const uint64_t t[4], const SM2_Z256_POINT *P, const uint64_t s[4])
{ uint64_t i = gi(P); mp_set(R, (scal(t) * i + scal(s)) % SMALL_Q); }
void sm2_z256_point_add(SM2_Z256_POINT *r, const SM2_Z256_POINT *a, const SM2_Z256_POINT *b) { uint64_t i = gi(a), j = gi(b); mp_set(r, (i + j) % SMALL_Q); }
void sm2_z256_point_sub(SM2_Z256_POINT *r, const SM2_Z256_POINT *a, const SM2_Z256_POINT *b) { uint64_t i = gi(a), j = gi(b); mp_set(r, (i + SMALL_Q - j) % SMALL_Q); }
void sm2_z256_point_neg(SM2_Z256_POINT *r, const SM2_Z256_POINT *a) { uint64_t i = gi(a); mp_set(r, (SMALL_Q - i) % SMALL_Q); }
void sm2_z256_point_dbl(SM2_Z256_POINT *r, const SM2_Z256_POINT *a) { uint64_t i = gi(a); mp_set(r, (2 * i) % SMALL_Q); }
int sm2_z256_point_equ(const SM2_Z256_POINT *P, const SM2_Z256_POINT *Q) { return gi(P) == gi(Q); }
int sm2_z256_point_get_xy(const SM2_Z256_POINT *P, uint64_t x[4], uint64_t y[4])
{
	uint64_t i = gi(P);
	if (i == 0) {
		setv(x, 0); if (y) setv(y, 0);
		return 0;
	}
	setv(x, g_XT[i]); if (y) setv(y, g_YT[i]);
	return 1;
}
