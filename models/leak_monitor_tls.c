/* M5 (cont.): the record / secret printers of src/tls_trace.c as monitored entry points (used instead of the unit itself by the
 * connection-I/O obligations: the real printers only format what they are given, reaching one of them during a monitored operation IS the dump). */
#include <stdio.h>
#include <stdint.h>
#include <gmssl/tls.h>
extern int g_mon_active;
#define DUMP(what) __CPROVER_assert(!g_mon_active, "diagnostic dump (" what ") during a secret-handling operation")
int tls_record_print(FILE *fp, const uint8_t *record, size_t recordlen, int format, int indent) { DUMP("tls_record_print"); return 1; }
int tls13_record_print(FILE *fp, int format, int indent, const uint8_t *record, size_t recordlen) { DUMP("tls13_record_print"); return 1; }
int tls_encrypted_record_print(FILE *fp, const uint8_t *record, size_t recordlen, int format, int indent) { DUMP("tls_encrypted_record_print"); return 1; }
int tls_handshake_print(FILE *fp, const uint8_t *handshake, size_t handshakelen, int format, int indent) { DUMP("tls_handshake_print"); return 1; }
int tls_alert_print(FILE *fp, const uint8_t *data, size_t datalen, int format, int indent) { DUMP("tls_alert_print"); return 1; }
int tls_application_data_print(FILE *fp, const uint8_t *data, size_t datalen, int format, int indent) { DUMP("tls_application_data_print"); return 1; }
int tls_pre_master_secret_print(FILE *fp, const uint8_t pre_master_secret[48], int format, int indent) { DUMP("tls_pre_master_secret_print"); return 1; }
int tls_random_print(FILE *fp, const uint8_t random[32], int format, int indent) { DUMP("tls_random_print"); return 1; }
int tls_secrets_print(FILE *fp, const uint8_t *pre_master_secret, size_t pre_master_secret_len, const uint8_t client_random[32], const uint8_t server_random[32],
	const uint8_t master_secret[48], const uint8_t *key_block, size_t key_block_len, int format, int indent) { DUMP("tls_secrets_print"); return 1; }
