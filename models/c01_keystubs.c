/* opaque stand-ins for key/point helpers whose results the C01-d obligations do not depend on */
#include <stdio.h>
#include <string.h>
#include <gmssl/sm2.h>
int sm2_key_set_public_key(SM2_KEY *key, const SM2_Z256_POINT *pub) { memset(key, 0, sizeof(*key)); key->public_key = *pub; return 1; }
void sm2_z256_point_mul_pre_compute(const SM2_Z256_POINT *P, SM2_Z256_POINT T[16]) { T[0] = *P; }
