#!/usr/bin/env python3
"""Core driver: builds obligations from /repo's *current* sources with goto-cc, swaps in
models with goto-instrument, runs cbmc (or an SMT solver on cbmc's export), guards against
vacuity with a WITNESS twin, and writes evidence.  See DESIGN.md section 1 and 2."""
import hashlib, json, os, re, shutil, signal, subprocess, sys, threading, time
from concurrent.futures import ThreadPoolExecutor

VERIF = os.path.dirname(os.path.dirname(os.path.abspath(__file__)))
REPO = os.environ.get("VERIF_REPO", "/repo")
SRC = os.path.join(REPO, "src")
BUILD_ROOT = os.environ.get("VERIF_BUILD", os.path.join(VERIF, "build"))
OUT = os.environ.get("VERIF_OUT", VERIF)   # where evidence/ and replay/ are written (seed matrix runs use a scratch dir)
NCPU = int(os.environ.get("VERIF_JOBS", str(os.cpu_count() or 8)))

CMAKE_DEFS = ["-DENABLE_ASM_UNDERSCORE_PREFIX", "-DENABLE_SDF", "-DENABLE_SHA1", "-DENABLE_SHA2",
              "-DENABLE_SM4_CCM", "-DENABLE_SM4_CFB", "-DENABLE_SM4_ECB", "-DENABLE_SM4_OFB",
              "-DENABLE_SM4_XTS", "-DNDEBUG"]

BACKENDS = {
    "minisat": [],
    "cadical": ["--sat-solver", "cadical"],
    "kissat": ["--external-sat-solver", "kissat"],
    "z3": ["--z3"],
    "cvc5": ["--cvc5"],
}

# --pointer-overflow-check is deliberately not a default: forming (not dereferencing) an out-of-object pointer, e.g.
# `out + inlen - padding_len - 1` in tls_cbc_decrypt, is standard-level UB that no property of this task is about and no
# sanitizer confirms; dereferences are still checked (pointer-check / bounds-check are on by default in cbmc 6).
# --signed-overflow-check is opt-in per obligation ("checks"): the code base shifts bytes into signed ints in decoders
# (asn1_int_from_der_ex: `*a << 8` then rejects negatives), standard-level UB that is not a property of this task.
DEFAULT_CHECKS = ["--undefined-shift-check"]

_lock = threading.Lock()
_unit_cache = {}
_cpu_sem = threading.BoundedSemaphore(NCPU)


class _MemBudget:
    """Keeps the sum of the expected memory of the running solver processes below ~80 % of RAM: obligations that declare mem_gb (the heavy
    ones) weigh half their limit, the others 1.5 GB.  Without it 16 parallel 10 GB queries are killed by the kernel and reported INCONCLUSIVE."""
    def __init__(self):
        try:
            kb = int([l for l in open("/proc/meminfo") if l.startswith("MemTotal")][0].split()[1])
        except Exception:
            kb = 32 * 1024 * 1024
        self.total = 0.8 * kb / 1024 / 1024
        self.used = 0.0
        self.cv = threading.Condition()

    def acquire(self, w):
        w = min(w, self.total)
        with self.cv:
            while self.used + w > self.total and self.used > 0:
                self.cv.wait()
            self.used += w
        return w

    def release(self, w):
        with self.cv:
            self.used -= w
            self.cv.notify_all()


_mem_budget = _MemBudget()


def sh(cmd, timeout=None, cwd=None, mem_gb=None, out_path=None, procs=None):
    """Run cmd (list) in its own process group. Returns (rc, output, wall, timed_out, rss_kb)."""
    t0 = time.time()
    pre = ""
    if mem_gb:
        pre = "ulimit -v %d; " % int(mem_gb * 1024 * 1024)
    pre += "ulimit -s unlimited 2>/dev/null; "
    rssf = None
    if out_path:
        rssf = out_path + ".rss"
        full = pre + "exec /usr/bin/time -o %s -f %%M " % shq(rssf) + " ".join(shq(c) for c in cmd)
    else:
        full = pre + "exec " + " ".join(shq(c) for c in cmd)
    p = subprocess.Popen(["/bin/bash", "-c", full], stdout=subprocess.PIPE, stderr=subprocess.STDOUT,
                         cwd=cwd, start_new_session=True)
    if procs is not None:
        procs.append(p)
    timed_out = False
    try:
        out, _ = p.communicate(timeout=timeout)
    except subprocess.TimeoutExpired:
        timed_out = True
        try:
            os.killpg(p.pid, signal.SIGKILL)
        except ProcessLookupError:
            pass
        out, _ = p.communicate()
    wall = time.time() - t0
    out = out.decode("utf-8", "replace")
    rss = 0
    if rssf and os.path.exists(rssf):
        try:
            rss = int(open(rssf).read().strip().split()[-1])
        except Exception:
            rss = 0
        os.unlink(rssf)
    if out_path:
        with open(out_path, "w") as f:
            f.write(out)
    return p.returncode, out, wall, timed_out, rss


def shq(s):
    import shlex
    return shlex.quote(str(s))


def file_hash(path):
    h = hashlib.sha256()
    with open(path, "rb") as f:
        h.update(f.read())
    return h.hexdigest()[:16]


class BuildError(Exception):
    pass


_SCALED_TLS = (("TLS_MAX_PLAINTEXT_SIZE", "16"), ("TLS_MAX_COMPRESSED_SIZE", "24"), ("TLS_MAX_CIPHERTEXT_SIZE", "32"), ("TLS_MAX_CERTIFICATES_SIZE", "32"))


def scaled_tls_dir(bdir):
    """M6 at the level of the type definitions: a copy of /repo's current include/gmssl/tls.h with the size constants scaled down, so that
    TLS_CONNECT's buffers are small arrays as well (the -include shim tls_scale.h only rescales code that uses the macros after the header)."""
    d = os.path.join(bdir, "scaled_tls")
    with _lock:
        dst = os.path.join(d, "gmssl", "tls.h")
        if not os.path.exists(dst):
            txt = open(os.path.join(REPO, "include", "gmssl", "tls.h")).read()
            for name, val in _SCALED_TLS:
                txt, n = re.subn(r"(?m)^(#define\s+%s\s+).*$" % name, lambda m: m.group(1) + val, txt)
                if n != 1:
                    raise BuildError("scaled tls.h: expected exactly one definition of %s, found %d" % (name, n))
            os.makedirs(os.path.dirname(dst), exist_ok=True)
            with open(dst, "w") as f:
                f.write(txt)
    return d


def goto_cc_compile(src, out, defs, quiet=True, extra_inc=(), shims=()):
    cmd = ["goto-cc"]
    if "@scaled_tls" in shims:
        cmd += ["-I", scaled_tls_dir(os.path.dirname(out))]
        shims = [x for x in shims if x != "@scaled_tls"]
    cmd += ["-I", os.path.join(REPO, "include"), "-I", os.path.join(VERIF, "include"),
            "-I", os.path.join(VERIF, "models")]
    for i in extra_inc:
        cmd += ["-I", i]
    if quiet:
        cmd += ["-include", os.path.join(VERIF, "include", "quiet.h")]
    for sh_ in shims:
        cmd += ["-include", os.path.join(VERIF, "include", sh_)]
    cmd += CMAKE_DEFS + list(defs) + ["-c", src, "-o", out]
    rc, o, _, _, _ = sh(cmd, timeout=300)
    if rc != 0:
        raise BuildError("goto-cc failed for %s:\n%s" % (src, o[-3000:]))
    return out


def build_unit(bdir, src, defs=(), quiet=True, remove=(), tag="", shims=()):
    """Compile one translation unit to a goto object (cached per run) and strip the bodies of
    the functions in `remove` (they are provided by a model unit)."""
    key = (src, tuple(defs), quiet, tuple(sorted(remove)), tuple(shims))
    with _lock:
        ent = _unit_cache.get(key)
        if ent is None:
            ent = {"lock": threading.Lock(), "path": None}
            _unit_cache[key] = ent
    with ent["lock"]:
        if ent["path"]:
            return ent["path"]
        hid = hashlib.sha256(repr(key).encode()).hexdigest()[:12]
        base = os.path.join(bdir, "u_%s_%s" % (os.path.basename(src).replace(".", "_"), hid))
        obj = base + ".gb"
        goto_cc_compile(src, obj, defs, quiet, shims=shims)
        if remove:
            cur = obj
            args = []
            for f in remove:
                args += ["--remove-function-body", f]
            out = base + ".rm.gb"
            rc, o, _, _, _ = sh(["goto-instrument"] + args + [cur, out], timeout=300)
            if rc != 0:
                raise BuildError("goto-instrument failed: " + o[-2000:])
            obj = out
        ent["path"] = obj
        return obj


def link(objs, out):
    rc, o, _, _, _ = sh(["goto-cc"] + list(objs) + ["-o", out], timeout=300)
    if rc != 0:
        raise BuildError("link failed:\n" + o[-3000:])
    return out


RE_VIOL = re.compile(r"Violated property:\n\s+file (\S+) function (\S+) line (\d+)[^\n]*\n\s+([^\n]*)\n\s+([^\n]*)")
RE_NOBODY = re.compile(r"no body for function (\S+)")


def parse_cbmc(out):
    res = {"verdict": "INCONCLUSIVE", "reason": "", "violated": None}
    if "VERIFICATION SUCCESSFUL" in out:
        res["verdict"] = "HOLDS"
    elif "VERIFICATION FAILED" in out:
        res["verdict"] = "FAIL"
        m = RE_VIOL.search(out)
        if m:
            res["violated"] = {"file": m.group(1), "function": m.group(2), "line": int(m.group(3)),
                               "description": m.group(4).strip(), "expr": m.group(5).strip()}
        else:
            # non stop-on-fail output
            fl = [l for l in out.splitlines() if l.rstrip().endswith(": FAILURE")]
            res["violated"] = {"file": "", "function": "", "line": 0,
                               "description": "; ".join(fl[:5]), "expr": ""}
    else:
        tail = out.strip().splitlines()[-6:]
        res["reason"] = " | ".join(tail)[-600:]
    res["nobody"] = sorted(set(RE_NOBODY.findall(out)))
    m = re.search(r"(\d+) variables, (\d+) clauses", out)
    if m:
        res["sat_vars"] = int(m.group(1))
        res["sat_clauses"] = int(m.group(2))
    m = re.findall(r"Runtime (?:decision procedure|Solver): ([0-9.]+)s", out)
    if m:
        res["solver_s"] = sum(float(x) for x in m)
    return res


class Obligation:
    """One solver query.  Fields (dict `d`):
      id, prop, title, harness (path rel. to /verif), entry, units [src basenames], remove {unit:[fn]}
      or remove [fn] (applied to every unit), models [paths rel. /verif], defs, unit_defs {unit:[defs]},
      cbmc [extra flags], unwind, unwindset, backend / backends, timeout, mem_gb, tier,
      allow_nobody [fn], checks (override), exact (bool), bounds (text), stubs (text list),
      expect ('hold'|'fail'), finding (known-finding key), kf_match (regex on violated description),
      no_quiet (bool), asserts [texts], malloc_may_fail(bool), witness (bool, default True)"""

    def __init__(self, d):
        self.d = d
        self.id = d["id"]

    def get(self, k, default=None):
        return self.d.get(k, default)


def build_obligation(ob, bdir, witness=False, extra_defs=()):
    d = ob.d
    defs = list(d.get("defs", []))
    quiet = not d.get("no_quiet", False)
    objs = []
    remove = d.get("remove", [])
    for u in d.get("units", []):
        src = u if os.path.isabs(u) else os.path.join(SRC, u)
        if isinstance(remove, dict):
            rm = remove.get(u, []) + remove.get("*", [])
        else:
            rm = list(remove)
        udefs = defs + list(d.get("unit_defs", {}).get(u, []))
        objs.append(build_unit(bdir, src, udefs, quiet, rm, shims=tuple(d.get("shims", {}).get(u, []))))
    models = list(d.get("models", []))
    if d.get("io_stubs", True) and "models/io_stubs.c" not in models:
        models.append("models/io_stubs.c")
    if d.get("mem_stubs", True) and "models/mem_stubs.c" not in models and "hex.c" not in d.get("units", []):
        models.append("models/mem_stubs.c")
    for m in models:
        objs.append(build_unit(bdir, os.path.join(VERIF, m), defs, quiet, ()))
    hdefs = defs + list(extra_defs) + (["-DWITNESS"] if witness else [])
    hsrc = os.path.join(VERIF, d["harness"])
    hobj = build_unit(bdir, hsrc, hdefs, quiet, (), shims=tuple(d.get("shims", {}).get(d["harness"], [])))
    objs.append(hobj)
    tag = hashlib.sha256((ob.id + repr(witness) + repr(extra_defs)).encode()).hexdigest()[:10]
    out = os.path.join(bdir, "o_%s_%s.gb" % (re.sub(r"[^A-Za-z0-9_]", "_", ob.id), tag))
    link(objs, out)
    return out


def cbmc_cmd(ob, binary, backend, witness_prop=None, witness=False):
    d = ob.d
    cmd = ["cbmc", binary, "--function", d["entry"], "--drop-unused-functions", "--verbosity", "6"]
    if not witness:
        cmd += ["--stop-on-fail", "--trace"]
    cmd += d.get("checks", DEFAULT_CHECKS)
    if not d.get("malloc_may_fail", False):
        cmd += ["--no-malloc-may-fail"]
    if d.get("unwind") is not None:
        cmd += ["--unwind", str(d["unwind"])]
    if d.get("unwindset"):
        cmd += ["--unwindset", ",".join(d["unwindset"])]
    cmd += ["--object-bits", str(d.get("object_bits", 10))]
    if "--max-field-sensitivity-array-size" not in d.get("cbmc", []):
        # cbmc's default (64) turns every read of a larger buffer (DER outputs, records) into a symbolic value even when
        # the bytes are concrete, which makes lengths parsed back from such buffers symbolic (measured: OOM -> 25 s)
        cmd += ["--max-field-sensitivity-array-size", str(d.get("field_sens", 200))]
    cmd += d.get("cbmc", [])
    cmd += BACKENDS[backend]
    if witness_prop:
        cmd += ["--property", witness_prop]
    return cmd


def find_witness_property(binary, ob):
    cmd = ["cbmc", binary, "--function", ob.d["entry"], "--drop-unused-functions", "--show-properties",
           "--json-ui"] + ob.d.get("checks", DEFAULT_CHECKS)
    if ob.d.get("unwind") is not None:
        cmd += ["--unwind", str(ob.d["unwind"])]
    rc, out, _, _, _ = sh(cmd, timeout=300)
    try:
        js = json.loads(out)
    except Exception:
        return None
    names = []
    for item in js:
        if isinstance(item, dict) and "properties" in item:
            for p in item["properties"]:
                if p.get("description", "").startswith("WITNESS"):
                    names.append(p["name"])
    return names


def run_solver(ob, binary, logbase, witness=False):
    """Runs cbmc on `binary` (racing back ends if several are given). Returns result dict."""
    d = ob.d
    backends = d.get("backends") or [d.get("backend", "minisat")]
    timeout = d.get("timeout", 300)
    if os.environ.get("VERIF_TO"):
        timeout = min(timeout, int(os.environ["VERIF_TO"]))
    mem = d.get("mem_gb", 16)
    wprops = None
    if witness:
        wprops = find_witness_property(binary, ob)
        if not wprops:
            return {"verdict": "INCONCLUSIVE", "reason": "no WITNESS property found in harness", "wall_s": 0}
    results = {}
    done = threading.Event()
    procs = []

    def one(be):
        cmd = cbmc_cmd(ob, binary, be, witness=bool(wprops) and len(wprops) > 1)
        if wprops:
            for w in wprops:
                cmd += ["--property", w]
        logp = "%s.%s%s.log" % (logbase, be, ".wit" if witness else "")
        w = _mem_budget.acquire(d["mem_gb"] / 2.0 if "mem_gb" in d else 1.5)
        try:
            with _cpu_sem:
                if done.is_set():
                    return
                rc, out, wall, to, rss = sh(cmd, timeout=timeout, mem_gb=mem, out_path=logp, procs=procs)
        finally:
            _mem_budget.release(w)
        r = parse_cbmc(out)
        if wprops and r["verdict"] in ("FAIL", "HOLDS"):
            # every reachability witness must be violated (each marks a branch the obligation claims to cover)
            ok_w = [l for l in out.splitlines() if "WITNESS" in l and l.rstrip().endswith(": SUCCESS")]
            if ok_w:
                r["verdict"] = "HOLDS"
                r["reason"] = "unreachable witness: " + "; ".join(x.strip()[:80] for x in ok_w[:3])
        r.update({"backend": be, "wall_s": round(wall, 2), "rss_mb": rss // 1024, "log": logp,
                  "cmd": " ".join(cmd)})
        if to:
            r["verdict"] = "INCONCLUSIVE"
            r["reason"] = "timeout after %ds" % timeout
        elif r["verdict"] == "INCONCLUSIVE" and not r["reason"]:
            r["reason"] = "rc=%s" % rc
        results[be] = r
        if r["verdict"] in ("HOLDS", "FAIL"):
            done.set()

    if len(backends) == 1:
        one(backends[0])
        return results[backends[0]]
    ths = [threading.Thread(target=one, args=(b,)) for b in backends]
    for t in ths:
        t.start()
    # wait for first verdict, then kill the rest
    while any(t.is_alive() for t in ths):
        if done.is_set():
            for pr in list(procs):
                try:
                    os.killpg(pr.pid, signal.SIGKILL)
                except Exception:
                    pass
            break
        time.sleep(0.5)
    for t in ths:
        t.join()
    best = None
    for be in backends:
        r = results.get(be)
        if r and r["verdict"] in ("HOLDS", "FAIL"):
            if best is None or r["wall_s"] < best["wall_s"]:
                best = r
    if best is None:
        best = results.get(backends[0]) or {"verdict": "INCONCLUSIVE", "reason": "no result"}
        best = dict(best)
        best["reason"] = "; ".join("%s: %s" % (b, results.get(b, {}).get("reason", "?")) for b in backends)
    best["raced"] = backends
    return best


LIBC_MODELLED = set("""memcpy memset memcmp memmove memchr strlen strcmp strncmp strcpy strncpy strchr strrchr strcat strncat
malloc calloc realloc free abort exit atexit assert __assert_fail abs labs time
nondet_u8 nondet_u16 nondet_u32 nondet_u64 nondet_int nondet_size nondet_bool""".split())


def bodiless_functions(binary):
    rc, out, _, _, _ = sh(["goto-instrument", "--list-goto-functions", binary], timeout=120)
    return set(re.findall(r"^(\S+) /\* .*body not available \*/", out, re.M))


def reachable_functions(binary, entry):
    rc, out, _, _, _ = sh(["goto-instrument", "--reachable-call-graph", "--function", entry, binary], timeout=120)
    fns = set()
    for l in out.splitlines():
        m = re.match(r"^(\S+) -> (\S+)$", l.strip())
        if m:
            fns.add(m.group(1))
            fns.add(m.group(2))
    fns = {f for f in fns if not f.startswith("__CPROVER")}
    return sorted(fns)


def run_obligation(ob, bdir, logdir):
    """Build + main query + witness twin. Returns the evidence record for the obligation."""
    d = ob.d
    rec = {"id": ob.id, "title": d.get("title", ""), "entry": d["entry"], "harness": d["harness"],
           "real_units": d.get("units", []), "models": d.get("models", []),
           "replaced_functions": d.get("remove", []), "bounds": d.get("bounds", ""),
           "exact": bool(d.get("exact", False)), "assertion": d.get("asserts", d.get("title", "")),
           "expect": d.get("expect", "hold")}
    t0 = time.time()
    logbase = os.path.join(logdir, re.sub(r"[^A-Za-z0-9_.-]", "_", ob.id))
    try:
        binary = build_obligation(ob, bdir, witness=False)
        wbinary = build_obligation(ob, bdir, witness=True) if d.get("witness", True) else None
    except BuildError as e:
        rec.update({"verdict": "INCONCLUSIVE", "reason": "build: " + str(e)[-1500:], "wall_s": round(time.time() - t0, 2)})
        return rec
    out = {}

    def main():
        out["main"] = run_solver(ob, binary, logbase, witness=False)

    def wit():
        out["wit"] = run_solver(ob, wbinary, logbase, witness=True)

    ths = [threading.Thread(target=main)]
    if wbinary:
        ths.append(threading.Thread(target=wit))
    for t in ths:
        t.start()
    for t in ths:
        t.join()
    r = out["main"]
    rec.update({"verdict": r["verdict"], "reason": r.get("reason", ""), "backend": r.get("backend"),
                "solver_wall_s": r.get("wall_s"), "solver_s": r.get("solver_s"), "rss_mb": r.get("rss_mb"),
                "sat_vars": r.get("sat_vars"), "sat_clauses": r.get("sat_clauses"),
                "violated": r.get("violated"), "log": r.get("log"), "cmd": r.get("cmd")})
    if rec["verdict"] == "FAIL" and "unwinding assertion" in ((rec.get("violated") or {}).get("description") or "") \
            and not d.get("unwind_is_violation", False):
        rec["verdict"] = "INCONCLUSIVE"
        rec["reason"] = "unwinding bound too small for %s:%s (harness bound, not a property violation)" % (
            rec["violated"].get("function"), rec["violated"].get("line"))
    allowed = set(d.get("allow_nobody", []))
    bad = [f for f in r.get("nobody", []) if f not in allowed]
    if bad and rec["verdict"] == "HOLDS":
        rec["verdict"] = "INCONCLUSIVE"
        rec["reason"] = "functions without body (would be nondet): " + ",".join(bad)
    if wbinary:
        w = out["wit"]
        rec["witness"] = {"verdict": w["verdict"], "wall_s": w.get("wall_s"), "reason": w.get("reason", "")}
        if rec["verdict"] == "HOLDS":
            if w["verdict"] == "HOLDS":
                rec["verdict"] = "INCONCLUSIVE"
                rec["reason"] = "vacuous: a WITNESS assert(0) is unreachable under the harness assumptions/bounds (%s)" % w.get("reason", "")
            elif w["verdict"] != "FAIL":
                rec["verdict"] = "INCONCLUSIVE"
                rec["reason"] = "witness twin undecided: " + w.get("reason", "")
    try:
        reach = reachable_functions(binary, d["entry"])
        nobody = bodiless_functions(binary)
        rec["functions_encoded"] = [f for f in reach if f not in nobody]
        bad2 = sorted(f for f in reach if f in nobody and f not in LIBC_MODELLED and f not in allowed
                      and not f.startswith("__CPROVER") and not f.startswith("__builtin"))
        rec["bodiless_reachable"] = bad2
        if bad2 and rec["verdict"] == "HOLDS":
            rec["verdict"] = "INCONCLUSIVE"
            rec["reason"] = "reachable functions without body (cbmc would havoc them): " + ",".join(bad2)
    except Exception as e:
        rec["functions_encoded"] = []
        rec["bodiless_reachable"] = ["<error: %s>" % e]
    rec["wall_s"] = round(time.time() - t0, 2)
    return rec


def load_known_findings():
    path = os.path.join(VERIF, "known_findings.txt")
    kf = []
    if os.path.exists(path):
        for l in open(path):
            l = l.strip()
            if l.startswith("finding:"):
                m = re.match(r"finding:\s+property=(\S+)\s+obligation=(\S+)\s+(.*)", l)
                if m:
                    kf.append({"property": m.group(1), "obligation": m.group(2), "text": m.group(3)})
    return kf


def run_property(prop, obligations, tier, note="", level="other", assumptions=(), trusted=(), pre_hook=None):
    """Runs all obligations of the property for the tier; prints the contract lines; writes evidence."""
    t0 = time.time()
    seed = int(os.environ.get("VERIF_SEED", "0") or 0)
    bdir = os.path.join(BUILD_ROOT, "%s_%s_%d" % (prop, tier, os.getpid()))
    shutil.rmtree(bdir, ignore_errors=True)
    os.makedirs(bdir)
    logdir = os.path.join(OUT, "replay", prop)
    os.makedirs(logdir, exist_ok=True)
    obs = []
    for d in obligations:
        d = dict(d)
        if tier == "quick" and d.get("tier", "quick") != "quick":
            continue
        if tier == "thorough" and d.get("tier") == "quick-only":
            continue
        if tier == "thorough" and "thorough" in d:
            d.update(d["thorough"])
        d["prop"] = prop
        obs.append(Obligation(d))
    kfs = load_known_findings()
    recs = []
    with ThreadPoolExecutor(max_workers=max(2, NCPU)) as ex:
        futs = [ex.submit(run_obligation, ob, bdir, logdir) for ob in obs]
        for f in futs:
            recs.append(f.result())
    violations = 0
    lines = []
    hook_ev = None
    if pre_hook:
        hr = pre_hook()
        hook_ev = hr.get("evidence")
        if hr.get("violations"):
            os.makedirs(logdir, exist_ok=True)
            hp = os.path.join(logdir, prop + ".prehook.txt")
            open(hp, "w").write("\n".join(hr["violations"]) + "\n")
            for v in hr["violations"]:
                violations += 1
                lines.append("VIOLATION property=%s replay=%s" % (prop, hp))
                lines.append("  " + v)
    for ob, rec in zip(obs, recs):
        exp = ob.d.get("expect", "hold")
        if exp == "fail":
            # finding obligation: must be listed in known_findings.txt
            listed = [k for k in kfs if k["obligation"] == ob.id and k["property"] == prop]
            desc = json.dumps(rec.get("violated") or {})
            if rec["verdict"] == "FAIL":
                okmatch = re.search(ob.d.get("kf_match", "."), desc) is not None
                if listed and okmatch:
                    rec["status"] = "known-finding"
                    lines.append("KNOWN-FINDING: property=%s %s [%s]" % (prop, listed[0]["text"], ob.id))
                else:
                    rec["status"] = "violation"
                    violations += 1
                    lines.append("VIOLATION property=%s replay=%s" % (prop, rec.get("log")))
            elif rec["verdict"] == "HOLDS":
                rec["status"] = "finding-not-reproduced"
                lines.append("NOTE: property=%s finding obligation %s no longer fails" % (prop, ob.id))
            else:
                rec["status"] = "inconclusive"
        else:
            if rec["verdict"] == "FAIL":
                rec["status"] = "violation"
                violations += 1
                v = rec.get("violated") or {}
                lines.append("VIOLATION property=%s replay=%s" % (prop, rec.get("log")))
                lines.append("  obligation=%s at %s:%s:%s %s" % (ob.id, v.get("file"), v.get("function"),
                                                                v.get("line"), v.get("description")))
            elif rec["verdict"] == "HOLDS":
                rec["status"] = "discharged"
            else:
                rec["status"] = "inconclusive"
                lines.append("INCONCLUSIVE: property=%s obligation=%s %s" % (prop, ob.id, rec.get("reason", "")[:300]))
    shutil.rmtree(bdir, ignore_errors=True)
    n = len(recs)
    disc = sum(1 for r in recs if r["status"] == "discharged")
    inc = sum(1 for r in recs if r["status"] == "inconclusive")
    kfn = sum(1 for r in recs if r["status"] == "known-finding")
    fns = sorted({f for r in recs for f in r.get("functions_encoded", [])})
    solver_time = round(sum((r.get("solver_wall_s") or 0) for r in recs), 2)
    ev = {
        "property_id": prop, "tier": tier, "seed": seed, "level": level,
        "coverage": {
            "explanation": ("Bounded symbolic verification: each obligation is one CBMC query over real "
                            "translation units of /repo/src compiled with goto-cc on this run; verdict = SAT/SMT "
                            "solver result over all symbolic inputs inside the stated bounds. " + note),
            "obligations": n, "discharged": disc, "inconclusive": inc, "known_findings": kfn,
            "violations": violations,
            "checker_cmd": "cbmc 6.11 (see per-obligation cmd)",
            "trusted_base": list(trusted) or ["cbmc 6.11 front end and SAT/SMT back ends", "goto-cc",
                                              "the models/stubs listed per obligation"],
            "functions_encoded": fns, "solver_wall_s_total": solver_time, "auxiliary": hook_ev,
            "samples": recs,
        },
        "assumptions": list(assumptions),
        "wall_s": round(time.time() - t0, 2), "violations": violations,
    }
    os.makedirs(os.path.join(OUT, "evidence"), exist_ok=True)
    with open(os.path.join(OUT, "evidence", prop + ".json"), "w") as f:
        json.dump(ev, f, indent=1)
    for r in recs:
        print("[%s] %-14s %-40s %6.1fs %s" % (prop, r["status"], r["id"], r.get("wall_s", 0), (r.get("reason") or "")[:120]))
    for l in lines:
        print(l)
    print("SUMMARY property=%s tier=%s obligations=%d discharged=%d known=%d inconclusive=%d violations=%d wall=%.1fs"
          % (prop, tier, n, disc, kfn, inc, violations, time.time() - t0))
    sys.stdout.flush()
    return 1 if violations else 0
