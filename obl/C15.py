OBLIGATIONS = [
    {"id": "C15.crl_lookup", "harness": "harness/C15/x509.c", "entry": "h_crl_lookup", "units": ["x509_crl.c"], "defs": ["-DCRL"],
     "remove": {"x509_crl.c": ["x509_revoked_cert_from_der"]}, "unwind": 6, "timeout": 300,
     "title": "CRL lookup reports a serial revoked exactly when the list contains it (equal length and bytes)",
     "bounds": "lists of 0..3 entries, serials of 1..3 bytes, all contents", "stubs": ["x509_revoked_cert_from_der: abstract entries"]},
]
for tl, sl in ((4, 3), (1, 1), (20, 8)):
    OBLIGATIONS.append({"id": "C15.signed_verify.tbs%d_sig%d" % (tl, sl), "harness": "harness/C15/x509.c", "entry": "h_signed_verify",
                        "units": ["x509_cer.c", "asn1.c"], "defs": ["-DSIGNED", "-DTBSL=%d" % tl, "-DSIGL=%d" % sl],
                        "remove": {"x509_cer.c": ["x509_cert_print", "x509_certs_print", "x509_name_print", "x509_explicit_exts_print", "x509_tbs_cert_print", "x509_validity_print",
                                                   "x509_public_key_info_print", "x509_rdn_print", "x509_attr_type_and_value_print", "x509_signed_print" ]},
                        "unwind": 40, "timeout": 600,
                        "title": "x509_signed_verify accepts only: no trailing bytes, sm2sign-with-sm3, BIT STRING without unused bits, hash over exactly the TBS range, caller's key and ID, signature verified",
                        "bounds": "TBS of %d content bytes, signature of %d bytes, all contents, algorithm code and unused-bits octet arbitrary" % (tl, sl),
                        "stubs": ["sm2_verify_* = recording ideal verifier", "AlgorithmIdentifier abstracted to a code byte"]})
for dl in (5, 120, 124, 125, 126, 127, 128, 130, 250, 253, 254, 255, 256):
    OBLIGATIONS.append({"id": "C15.ext_to_der.d%d" % dl, "harness": "harness/C15/x509.c", "entry": "h_ext_to_der", "units": ["x509_ext.c", "asn1.c"],
                        "defs": ["-DEXTENC", "-DDL=%d" % dl], "unwind": 40, "timeout": 600, "field_sens": 0,
                        "cbmc": ["--max-field-sensitivity-array-size", "64"],
                        "tier": "quick" if dl in (124, 126, 127, 128, 254, 256) else "thorough",
                        "title": "x509_ext_to_der_ex: dry-run length = written length, outer header consistent, parses back",
                        "bounds": "extension content of %d bytes (havocked), criticality absent/false/true" % dl})
OBLIGATIONS += [
    {"id": "C15.validity_to_der", "harness": "harness/C15/encoders.c", "entry": "h_validity_to_der", "units": ["x509_cer.c", "asn1.c"], "defs": ["-DVALIDITY"],
     "remove": {"asn1.c": ["asn1_utc_time_to_der_ex", "asn1_generalized_time_to_der_ex"], "x509_cer.c": ["x509_cert_print"]}, "unwind": 8, "timeout": 600,
     "title": "x509_validity_to_der: dry run = written, SEQUENCE length = both time encodings, notBefore then notAfter, UTCTime through 2049 / GeneralizedTime from 2050 for each bound independently",
     "bounds": "all notBefore / notAfter below 2^38 s (incl. windows across the 2049/2050 switch)", "stubs": ["UTCTime / GeneralizedTime writers: abstract fixed-size writers that log their argument (the writers themselves: C14.time_*)"]},
    {"id": "C15.crl_entry_exts_to_der", "harness": "harness/C15/encoders.c", "entry": "h_crl_entry_exts", "units": ["x509_crl.c", "asn1.c"], "defs": ["-DCRLENTRY"],
     "remove": {"x509_crl.c": ["x509_crl_reason_ext_to_der", "x509_invalidity_date_ext_to_der", "x509_cert_issuer_ext_to_der", "x509_crl_print", "x509_crl_entry_exts_print", "x509_revoked_cert_print", "x509_revoked_certs_print", "x509_crl_exts_print", "x509_tbs_crl_print"]}, "unwind": 8, "timeout": 600,
     "title": "x509_crl_entry_exts_to_der: each present element (reason 0..10, invalidity date, certificate issuer) is emitted, nothing exactly when all are absent, dry run = written",
     "bounds": "reason -1..10, invalidity date present / absent, certificate issuer present / absent", "stubs": ["the three element encoders: abstract fixed-size writers"]},
]
NOTE = "C15: certificates, requests, CRLs."
