GCM_RM = []
def gcm(name, entry, title, defs, **kw):
    d = {"id": "C05.gcm." + name, "harness": "harness/C05/gcm.c", "entry": entry, "units": ["sm4_gcm.c"],
         "defs": defs, "unwind": 70, "timeout": 600, "title": title, "cbmc": ["--max-field-sensitivity-array-size", "128"],
         "stubs": ["GHASH = ideal MAC with transcript log", "CTR32 layer and block cipher: logged invertible stand-ins"]}
    d.update(kw)
    return d
OBLIGATIONS = []
for tl in (12, 13, 15, 16):
    OBLIGATIONS.append(gcm("oneshot.t%d" % tl, "h_gcm_oneshot", "sm4_gcm_decrypt accepts <=> all taglen bytes equal E(Y0) xor GHASH(H, AAD, C); nothing decrypted on failure",
                           ["-DN=5", "-DAADLEN=3", "-DTAGLEN=%d" % tl], bounds="ciphertext 5 bytes, AAD 3 bytes, 96-bit IV, tag length %d; all contents" % tl))
    OBLIGATIONS.append(gcm("roundtrip.t%d" % tl, "h_gcm_roundtrip", "sm4_gcm_decrypt(sm4_gcm_encrypt(m)) = m",
                           ["-DN=5", "-DAADLEN=3", "-DTAGLEN=%d" % tl], bounds="message 5 bytes, AAD 3 bytes, tag length %d" % tl))
    NS = 14
    for clo in range(0, NS + tl + 1, 4):
        chi = min(clo + 3, NS + tl)
        OBLIGATIONS.append(gcm("stream.t%d.cut%d_%d" % (tl, clo, chi), "h_gcm_stream",
                               "streaming sm4_gcm_decrypt: authenticates exactly ciphertext minus tag, compares all taglen bytes, reads only inside the chunks",
                               ["-DN=%d" % NS, "-DAADLEN=3", "-DTAGLEN=%d" % tl, "-DCMIN=%d" % clo, "-DCMAX=%d" % chi],
                               bounds="ciphertext 14 bytes + tag %d bytes fed in two chunks, boundary %d..%d (exact-size chunk objects)" % (tl, clo, chi),
                               tier="quick" if tl in (12, 16) else "thorough"))

def ccm(name, entry, title, n, aadlen, ivlen, taglen, **kw):
    d = {"id": "C05.ccm.%s.n%d_a%d_iv%d_t%d" % (name, n, aadlen, ivlen, taglen), "harness": "harness/C05/ccm.c", "entry": entry, "units": ["sm4_ccm.c"],
         "defs": ["-DN=%d" % n, "-DAADLEN=%d" % aadlen, "-DIVLEN=%d" % ivlen, "-DTAGLEN=%d" % taglen], "unwind": 120, "timeout": 600, "title": title,
         "cbmc": ["--max-field-sensitivity-array-size", "128"],
         "bounds": "payload %d bytes, AAD %d bytes, nonce %d bytes, tag %d bytes; all contents" % (n, aadlen, ivlen, taglen),
         "stubs": ["CBC-MAC = transcript recorder with fresh collision-free output", "sm4_encrypt: logged stand-in"]}
    d.update(kw)
    return d
GRID = [(5, 14, 12, 8), (0, 0, 13, 4), (17, 3, 7, 16), (16, 30, 12, 6), (5, 16, 8, 10), (1, 1, 13, 14), (32, 14, 12, 12)]
for i, (n, a, ivl, t) in enumerate(GRID):
    tq = "quick" if i < 5 else "thorough"
    OBLIGATIONS.append(ccm("decrypt", "h_ccm_decrypt", "sm4_ccm_decrypt: MAC input = RFC 3610 formatting of (nonce, AAD, payload); accept <=> all taglen bytes match", n, a, ivl, t, tier=tq))
    OBLIGATIONS.append(ccm("roundtrip", "h_ccm_roundtrip", "sm4_ccm_decrypt(sm4_ccm_encrypt(m)) = m; encrypt MAC input = RFC 3610 formatting", n, a, ivl, t, tier=tq))

for total in (70, 31, 20, 0, 32, 33):
    step = 6
    for clo in range(0, total + 1, step):
        chi = min(clo + step - 1, total)
        OBLIGATIONS.append({"id": "C05.ctrhmac.stream.total%d.cut%d_%d" % (total, clo, chi), "harness": "harness/C05/ctrhmac.c", "entry": "h_ctrhmac_stream",
                            "units": ["sm4_ctr_sm3_hmac.c"], "defs": ["-DN=40", "-DAADLEN=3", "-DTOTAL=%d" % total, "-DCMIN=%d" % clo, "-DCMAX=%d" % chi],
                            "unwind": 110, "timeout": 600, "cbmc": ["--max-field-sensitivity-array-size", "128"],
                            "tier": "quick" if total in (70, 31, 0) else "thorough",
                            "title": "SM4-CTR+SM3-HMAC streaming decrypt: MAC over AAD||ciphertext (tag withheld), full 32-byte compare, truncated input refused, reads inside the chunks",
                            "bounds": "%d input bytes (ciphertext||tag, or a truncation), AAD 3 bytes, chunk boundary %d..%d" % (total, clo, chi),
                            "stubs": ["sm3_hmac_* = ideal MAC with transcript log", "sm4_ctr_* = logged stand-in"]})

for al, cl, tq in ((0, 0, "quick"), (16, 5, "quick"), (20, 17, "quick"), (32, 16, "quick"), (5, 33, "thorough"), (48, 1, "thorough")):
    for clo in range(0, cl + 1, 3):
        chi = min(clo + 2, cl)
        OBLIGATIONS.append({"id": "C05.ghash.a%d_c%d.cut%d_%d" % (al, cl, clo, chi), "harness": "harness/C05/ghash.c", "entry": "h_ghash", "units": ["ghash.c", "gf128.c"],
                            "remove": {"gf128.c": ["gf128_mul", "gf128_from_hex", "gf128_equ_hex", "gf128_print"]},
                            "defs": ["-DAL=%d" % al, "-DCL=%d" % cl, "-DCMIN=%d" % clo, "-DCMAX=%d" % chi],
                            "unwind": 70, "timeout": 600, "tier": tq,
                            "title": "ghash() and ghash_init/update/finish = SP 800-38D chain over pad(A) || pad(C) || lengths (gf128_mul uninterpreted)",
                            "bounds": "AAD %d bytes, ciphertext %d bytes, all contents, chunk boundary %d..%d" % (al, cl, clo, chi),
                            "stubs": ["gf128_mul = uninterpreted function"]})
# known finding: the composite CTR/CBC + HMAC modes do not authenticate the IV
OBLIGATIONS.append({"id": "C05.ctrhmac.iv_in_mac", "harness": "harness/C05/ctrhmac.c", "entry": "h_ctrhmac_stream",
                    "units": ["sm4_ctr_sm3_hmac.c"], "defs": ["-DN=40", "-DAADLEN=3", "-DTOTAL=40", "-DCMIN=8", "-DCMAX=8", "-DEXPECT_IV"],
                    "unwind": 110, "timeout": 600, "cbmc": ["--max-field-sensitivity-array-size", "128"], "expect": "fail", "kf_match": "IV",
                    "title": "finding probe: the IV / counter block is part of the MAC input", "bounds": "one chunking"})
OBLIGATIONS.append({"id": "C05.ccm.aad_length_encoding", "harness": "harness/C05/ccm_aadlen.c", "entry": "h_ccm_aadlen", "units": ["sm4_ccm.c"],
                    "unwind": 20, "timeout": 600, "field_sens": 0, "cbmc": ["--max-field-sensitivity-array-size", "0"],
                    "title": "SM4-CCM encodes the AAD length as RFC 3610 2.2 prescribes for every AAD length 1..70000 (two octets below 0xFF00, FF FE + four octets from there)",
                    "bounds": "all AAD lengths 1..70000 (contents irrelevant), 1-byte payload", "stubs": ["CBC-MAC: call-structure probe"]})
NOTE = "C05: authenticated decryption."
