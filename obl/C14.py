def a1(name, entry, title, **kw):
    d = {"id": "C14." + name, "harness": "harness/C14/asn1prim.c", "entry": entry, "units": ["asn1.c"],
         "unwind": 40, "timeout": 600, "title": title}
    d.update(kw)
    return d
OBLIGATIONS = [
    a1("length_roundtrip", "h_length_roundtrip", "DER length: decode(encode(len)) = len, dry run = written, for every len <= INT_MAX", exact=True, bounds="none"),
    a1("length_canonical", "h_length_canonical", "every accepted DER length re-encodes to the identical bytes (no long form for < 128, no leading zero)", bounds="all 5-byte prefixes, inputs up to INT_MAX bytes (the encoder refuses larger lengths)"),
    a1("integer_roundtrip", "h_integer_roundtrip", "INTEGER (byte string): round trip, dry run, minimal content", defs=["-DLMAX=8"], bounds="1..8 content bytes"),
    a1("integer_canonical", "h_integer_canonical", "every accepted INTEGER encoding re-encodes identically; negative / non-minimal refused", defs=["-DLMAX=8"], bounds="inputs of 1..8 bytes"),
    a1("int_roundtrip", "h_int_roundtrip", "int: round trip for every 0..INT_MAX", exact=True, bounds="none"),
    a1("int_canonical", "h_int_canonical", "every accepted int encoding re-encodes identically", bounds="inputs of 1..8 bytes"),
    a1("boolean", "h_boolean", "BOOLEAN: only 01 01 00/FF accepted; round trip", exact=True, bounds="none"),
    a1("bits", "h_bits", "named bit list (int): round trip for every non-negative int, dry run = written", exact=True, bounds="none"),
]

def a2(name, entry, title, **kw):
    d = {"id": "C14." + name, "harness": "harness/C14/asn1more.c", "entry": entry, "units": ["asn1.c"],
         "unwind": 45, "timeout": 900, "title": title}
    d.update(kw)
    return d
OBLIGATIONS += [
    a2("oid_roundtrip", "h_oid_roundtrip", "OID octets: round trip for 2..4 arcs with full 32-bit arc values, dry run = written", defs=["-DNARCS=4"], bounds="2..4 arcs, every 32-bit arc value",
       thorough={"defs": ["-DNARCS=8"], "bounds": "2..8 arcs"}),
    a2("oid_capacity_fullscale", "h_oid_capacity", "OID decoder never writes more than 32 arcs: 40 one-byte arcs offered", defs=["-DOIDBYTES=40", "-DONE_BYTE_ARCS"],
       bounds="real capacity 32; 40 octets, each a complete one-byte arc (worst case for the count)"),
    a2("oid_capacity_scaled", "h_oid_capacity", "OID decoder never writes more than the capacity: arbitrary octets, capacity scaled to 6 (same source)", defs=["-DOIDBYTES=12"],
       shims={"asn1.c": ["oid_scale6.h"], "harness/C14/asn1more.c": ["oid_scale6.h"]}, bounds="capacity constant scaled 32 -> 6 (M6); arbitrary 12 octets"),
    a2("oid_capacity_40", "h_oid_capacity", "OID decoder never writes more than 32 arcs (arbitrary 40 octets)", defs=["-DOIDBYTES=40"], tier="thorough", backends=["cadical", "kissat", "minisat"], timeout=3000,
       bounds="arbitrary 40-octet contents at real scale"),
    a2("seq_of_int_capacity", "h_seq_of_int_capacity", "SEQUENCE OF int decoder never writes more than max_nums", defs=["-DMAXN=3"], bounds="capacity 3, arbitrary 17-byte input"),
    a2("seq_of_int_roundtrip", "h_seq_of_int_roundtrip", "SEQUENCE OF int round trip (2 elements, all values)", bounds="2 elements"),
    a2("types_get_item", "h_types_get_item", "asn1_types_get_item_by_index returns item #index", bounds="2 items"),
] + [
    a2("utf8.n%d" % n, "h_utf8", "UTF-8 validator = structural well-formedness (lead/continuation bytes), multi-byte characters accepted",
       defs=["-DSMIN=%d" % n, "-DSMAX=%d" % n], bounds="strings of %d bytes, all contents" % n, tier="quick" if n <= 4 else "thorough", timeout=1500)
    for n in (1, 2, 3, 4, 5, 6)
] + [
    a2("printable_ia5", "h_printable_ia5", "PrintableString / IA5String validators = X.680 character sets", bounds="3-character strings (per-character predicate)"),
    a2("case_ignore_match", "h_case_ignore_match", "printable case-ignore match compares every character", bounds="3-character strings without spaces"),
    a2("time_roundtrip", "h_time_roundtrip", "asn1_time_from_str(asn1_time_to_str(t)) = t", defs=["-DTMAX=0xffffffffULL"], unwind=140, backends=["cadical", "kissat", "minisat"], timeout=1500,
       bounds="0 <= t < 2^32 (years 1970..2106), UTCTime and GeneralizedTime", tier="thorough"),
    a2("time_roundtrip_10y", "h_time_roundtrip", "asn1_time_from_str(asn1_time_to_str(t)) = t", defs=["-DTMAX=315532800ULL"], unwind=20, backends=["cadical", "kissat"],
       bounds="0 <= t <= 315532800 (1970..1980), UTCTime and GeneralizedTime"),
    a2("time_roundtrip_2050", "h_time_roundtrip", "asn1_time_from_str(asn1_time_to_str(t)) = t around the UTCTime limit", defs=["-DTMIN=2493072000ULL", "-DTMAX=2587679999ULL"], unwind=140, backends=["cadical", "kissat", "minisat"],
       timeout=900, bounds="2049-01-01 <= t <= 2051-12-31 (the UTCTime two-digit-year window ends in 2050), UTCTime and GeneralizedTime"),
    a2("time_roundtrip_2000", "h_time_roundtrip", "asn1_time_from_str(asn1_time_to_str(t)) = t around the century change", defs=["-DTMIN=915148800ULL", "-DTMAX=978307199ULL"], unwind=140, backends=["cadical", "kissat", "minisat"],
       timeout=900, bounds="1999-01-01 <= t <= 2000-12-31, UTCTime and GeneralizedTime"),
]

def tx(name, entry, title, **kw):
    d = {"id": "C14." + name, "harness": "harness/C14/text.c", "entry": entry, "units": ["base64.c", "hex.c", "pem.c"], "mem_stubs": False,
         "unwind": 100, "timeout": 900, "title": title}
    d.update(kw)
    return d
OBLIGATIONS += [
    tx("base64_roundtrip.n%d" % n, "h_base64_roundtrip", "base64: decode(encode(data)) = data, every split of the input into two chunks, text fed to the decoder in two halves",
       defs=["-DNMAX=%d" % max(n, 1), "-DNFIX=%d" % n], bounds="data of %d bytes, all contents, all input cut points, text cut in the middle" % n, tier="thorough", timeout=3000, mem_gb=24)
    for n in (0,)      # n >= 1 with symbolic contents: no verdict within 20 min / 24 GB on any back end (buffered count and output pointer become symbolic); see base64_chunks.*
] + [
    tx("base64_chunks.n%d" % n, "h_base64_roundtrip", "base64: decode(encode(data)) = data, every split of the input and every split of the text into two chunks (incl. inside the padding)",
       defs=["-DNMAX=%d" % n, "-DNFIX=%d" % n, "-DTCUT_ALL", "-DREPDATA"], bounds="data of %d bytes (one representative content), all input cut points, all text cut points" % n, tier="quick", timeout=900)
    for n in (1, 2, 3, 4, 5, 6, 7)
] + [
    tx("base64_chunks_line.n%d" % n, "h_base64_roundtrip", "base64: decode(encode(data)) = data around the 48-byte line length, every split of the text into two chunks",
       defs=["-DNMAX=%d" % n, "-DNFIX=%d" % n, "-DTCUT_ALL", "-DREPDATA", "-DCUT0"], bounds="data of %d bytes (one representative content), input in one piece, all text cut points" % n, tier="quick", timeout=900)
    for n in (47, 48, 49)
] + [
    tx("base64_block", "h_base64_block", "base64 block codec: decode_block(encode_block(f)) = f, alphabet and padding placement", bounds="blocks of 1..9 bytes, all contents", tier="thorough", timeout=1200),
    tx("hex", "h_hex", "hex decoder: accepts exactly even-length hex digit strings, value correct, writes inlen/2 bytes", bounds="inputs of 0..6 characters"),
    tx("pem_capacity", "h_pem_capacity", "pem_read never writes more than maxlen bytes whatever the lines contain", defs=["-DPEM_LINES=3", "-DPEM_LINELEN=8", "-DPEM_STUB_B64"], units=["pem.c"], mem_stubs=True,
       bounds="capacity 1..200 bytes, 3 text lines, each decoding to 0..96 arbitrary bytes (contract model of the base64 decoder), final block 0..48",
       stubs=["fgets/feof: arbitrary line stream", "snprintf specialised", "base64_decode_*: contract model (<= 96 bytes per line)"]),
]
NOTE = "C14: encodings."
