from .common import SMALL_REMOVE, Z256_IO

def alg(name, entry, title, q=13, **kw):
    d = {"id": "C01-a.%s.q%d" % (name, q), "harness": "harness/C01/algebra.c", "entry": entry,
         "units": ["sm2_sign.c", "sm2_z256.c"], "models": ["models/sm2_small.c"],
         "remove": {"sm2_z256.c": SMALL_REMOVE + Z256_IO,
                    "sm2_sign.c": ["sm2_signature_print", "sm2_compute_z", "sm2_sign_init", "sm2_verify_init",
                                   "sm2_sign_update", "sm2_verify_update", "sm2_sign_finish", "sm2_verify_finish",
                                   "sm2_sign_finish_fixlen", "sm2_fast_sign_pre_compute", "sm2_sign", "sm2_verify",
                                   "sm2_sign_fixlen", "sm2_signature_to_der", "sm2_signature_from_der"]},
         "defs": ["-DSMALL_Q=%d" % q], "title": title,
         "bounds": "group order q=%d (M4 small-field instantiation); nonce retry loops unwound 4x" % q,
         "unwind": 34, "timeout": 600,
         "stubs": ["M4 small field/group model (models/sm2_small.c)"]}
    d.update(kw)
    return d

OBLIGATIONS = []
for q in (13, 31):
    t = "quick" if q == 13 else "thorough"
    OBLIGATIONS += [
        alg("do_sign", "h_do_sign", "sm2_do_sign: succeeds, satisfies GB/T 32918.2 for the nonce drawn, both verifiers accept", q, tier=t,
            cbmc=["--no-unwinding-assertions"], unwindset=["sm2_do_sign.0:2", "sm2_do_sign.1:2", "sm2_do_sign.2:2"],
            bounds="q=%d; nonce loop checked as an inductive step: one draw plus one retry (every retry must be one of the standard's cases, asserted at the next draw); longer retry runs cut" % q),
        alg("fast_sign", "h_fast_sign", "sm2_fast_sign (+compute_key): equations for the precomputed nonce, both verifiers accept, retry only in the standard's cases", q, tier=t),
        alg("fast_key_range", "h_fast_key_range", "sm2_fast_sign_compute_key refuses d = n-1", q, tier=t),
        alg("do_verify_sound", "h_verify_sound", "sm2_do_verify accepts exactly the valid tuples", q, tier=t, defs=["-DSMALL_Q=%d" % q, "-DVERIFY_FN=0"]),
        alg("fast_verify_sound", "h_verify_sound", "sm2_fast_verify accepts exactly the valid tuples", q, tier=t, defs=["-DSMALL_Q=%d" % q, "-DVERIFY_FN=1"]),
    ]

SIGN_OTHER = ["sm2_signature_print", "sm2_compute_z", "sm2_sign_init", "sm2_verify_init", "sm2_sign_update",
              "sm2_verify_update", "sm2_sign_finish", "sm2_verify_finish", "sm2_sign_finish_fixlen",
              "sm2_fast_sign_pre_compute", "sm2_sign", "sm2_verify", "sm2_sign_fixlen", "sm2_signature_to_der",
              "sm2_signature_from_der", "sm2_do_sign", "sm2_fast_sign", "sm2_fast_sign_compute_key"]
for fn, nm in ((0, "do_verify"), (1, "fast_verify")):
    OBLIGATIONS.append({
        "id": "C01-b.%s_full" % nm, "harness": "harness/C01/verify_full.c", "entry": "h_verify_full",
        "units": ["sm2_sign.c", "sm2_z256.c"],
        "remove": {"sm2_z256.c": ["sm2_z256_point_mul_generator", "sm2_z256_point_mul", "sm2_z256_point_mul_ex",
                                  "sm2_z256_point_add", "sm2_z256_point_get_xy", "sm2_z256_rand_range"] + Z256_IO,
                   "sm2_sign.c": SIGN_OTHER},
        "defs": ["-DVERIFY_FN=%d" % fn], "unwind": 34, "timeout": 600, "exact": True, "backend": "cadical",
        "title": "sm2_%s at full width: accept <=> range conditions and r = (e + x1) mod n; scalars passed are s and (r+s) mod n" % nm,
        "bounds": "none: all 2^256 values of r, s, e and all x1 < p; point arithmetic opaque",
        "stubs": ["point_mul_generator/point_mul/point_mul_ex/point_add/point_get_xy: opaque, argument-recording"]})

def der(name, entry, title, **kw):
    d = {"id": "C01-c." + name, "harness": "harness/C01/der.c", "entry": entry,
         "units": ["sm2_sign.c", "asn1.c"],
         "remove": {"sm2_sign.c": ["sm2_do_verify", "sm2_fast_verify", "sm2_do_sign", "sm2_fast_sign", "sm2_sign",
                                   "sm2_fast_sign_compute_key", "sm2_fast_sign_pre_compute", "sm2_sign_init",
                                   "sm2_sign_finish", "sm2_sign_fixlen", "sm2_sign_finish_fixlen", "sm2_compute_z",
                                   "sm2_verify_init", "sm2_signature_print", "sm2_sign_update", "sm2_verify_update"]},
         "title": title, "timeout": 900, "unwind": 41}
    d.update(kw)
    return d
OBLIGATIONS += [
    der("verify_der", "h_verify_der", "sm2_verify: every accepted byte string (<=16 bytes) is the canonical DER of the decoded (r,s), fully consumed",
        defs=["-DLMAX=12"], unwind=41, bounds="input length 1..12 bytes (r,s up to 4 bytes each)",
        thorough={"defs": ["-DLMAX=20"], "unwind": 41, "timeout": 3000, "bounds": "input length 1..20 bytes"}),
    der("verify_finish_der", "h_verify_finish_der", "sm2_verify_finish: same canonicity claim", defs=["-DLMAX=12"], unwind=41,
        bounds="input length 1..12 bytes", thorough={"defs": ["-DLMAX=20"], "timeout": 3000, "bounds": "input length 1..20 bytes"}),
    der("from_der_capacity", "h_from_der_capacity", "sm2_signature_from_der: r or s longer than 32 bytes refused, no write outside SM2_SIGNATURE",
        bounds="input object 110 bytes, arbitrary contents, any claimed lengths"),
    der("sig_roundtrip", "h_sig_roundtrip", "sm2_signature_to_der: dry run = written, decodes back, <= 72 bytes, all (r,s)", exact=True, tier="thorough", timeout=3000,
        bounds="none (all 2^512 (r,s))", unwind=41),
]

def idb(name, entry, title, **kw):
    d = {"id": "C01-d." + name, "harness": "harness/C01/idbind.c", "entry": entry,
         "units": ["sm2_sign.c"],
         "remove": {"sm2_sign.c": ["sm2_do_verify", "sm2_fast_verify", "sm2_do_sign", "sm2_fast_sign", "sm2_sign", "sm2_verify",
                                   "sm2_fast_sign_compute_key", "sm2_fast_sign_pre_compute", "sm2_sign_init",
                                   "sm2_sign_finish", "sm2_sign_fixlen", "sm2_sign_finish_fixlen", "sm2_verify_finish",
                                   "sm2_signature_print", "sm2_signature_to_der", "sm2_signature_from_der"]},
         "models": ["models/sm3_rec.c", "models/c01_keystubs.c"],
         "stubs": ["M2 SM3 stream recorder", "sm2_z256_point_to_bytes -> arbitrary 64 bytes", "sm2_key_set_public_key, point_mul_pre_compute: no body (results unused)"],
         "title": title, "timeout": 600, "unwind": 330}
    d.update(kw)
    return d
OBLIGATIONS += [
    idb("compute_z", "h_compute_z", "Z input = be16(8*idlen) || id[0..idlen) || a || b || G || P, id not read beyond idlen",
        defs=["-DIDMAX=20"], bounds="idlen 1..20 (case split), arbitrary content, exact-size id object"),
    idb("entl", "h_entl", "ENTL header = 16-bit bit length for every idlen 1..8191", defs=["-DPROBE_SM3"], models=["models/c01_keystubs.c"], exact=True,
        bounds="none: every idlen 1..8191 (SM3 replaced by an update-call probe)"),
    idb("init_binds_z", "h_init_binds_z", "sm2_verify_init hashes exactly Z then the message; reset returns to Z",
        bounds="idlen 1..4 (case split)"),
    idb("idlen_limit", "h_idlen_limit", "sm2_sign_init/sm2_verify_init accept idlen exactly in 1..8191 and pass it on unchanged",
        defs=["-DPROBE_Z"], exact=True, bounds="none: every size_t idlen",
        remove={"sm2_sign.c": ["sm2_do_verify", "sm2_fast_verify", "sm2_do_sign", "sm2_fast_sign", "sm2_sign", "sm2_verify",
                               "sm2_fast_sign_compute_key", "sm2_fast_sign_pre_compute", "sm2_compute_z",
                               "sm2_sign_finish", "sm2_sign_fixlen", "sm2_sign_finish_fixlen", "sm2_verify_finish",
                               "sm2_signature_print", "sm2_signature_to_der", "sm2_signature_from_der"]}),
]

OBLIGATIONS.append({
    "id": "C01-e.sign_finish_nonce_step", "harness": "harness/C01/nonce.c", "entry": "h_sign_finish_step",
    "units": ["sm2_sign.c"],
    "remove": {"sm2_sign.c": ["sm2_do_verify", "sm2_fast_verify", "sm2_do_sign", "sm2_fast_sign", "sm2_sign", "sm2_verify",
                              "sm2_fast_sign_compute_key", "sm2_fast_sign_pre_compute", "sm2_compute_z", "sm2_sign_init", "sm2_verify_init",
                              "sm2_sign_fixlen", "sm2_sign_finish_fixlen", "sm2_verify_finish",
                              "sm2_signature_print", "sm2_signature_to_der", "sm2_signature_from_der"]},
    "title": "sm2_sign_finish: inductive step - only never-used precomputed nonces are consumed, invariant re-established (any history)",
    "bounds": "one step from an arbitrary state satisfying the invariant; up to 4 retry requests per call", "unwind": 70, "timeout": 600,
    "cbmc": ["--no-unwinding-assertions"], "unwindset": ["sm2_sign_finish.0:6"],
    "stubs": ["sm2_fast_sign_pre_compute: fills 32 entries with fresh ids (or fails)", "sm2_fast_sign: records the entry consumed, arbitrary verdict", "sm3_finish, sm2_signature_to_der: opaque"]})
NOTE = "C01: SM2 signatures."
