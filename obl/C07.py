KEEP = ["x509_certs_verify", "x509_certs_verify_tlcp"]
def ch(name, entry, n, title, **kw):
    d = {"id": "C07-a.%s.n%d" % (name, n), "harness": "harness/C07/chain.c", "entry": entry, "units": ["x509_cer.c"],
         "remove": {"x509_cer.c": ["x509_cert_from_der", "x509_cert_check", "x509_cert_verify_by_ca_cert", "x509_cert_get_issuer",
                                   "x509_certs_get_cert_by_subject", "x509_cert_print"]},
         "defs": ["-DNCERTS=%d" % n], "unwind": 12, "timeout": 600, "title": title,
         "bounds": "chains of %d certificates (+ encryption certificate for TLCP), all combinations of per-certificate facts, depth 0..6, both roles" % n,
         "stubs": ["abstract certificates: x509_cert_from_der/check/verify_by_ca_cert/get_issuer/certs_get_cert_by_subject return arbitrary per-certificate facts"]}
    d.update(kw)
    return d
OBLIGATIONS = []
for n in (1, 2, 3, 4, 5):
    t = "quick" if n <= 4 else "thorough"
    OBLIGATIONS.append(ch("tls", "h_chain", n, "x509_certs_verify: accept <=> reference predicate (sound; complete for the toolkit's chain shape)", tier=t))
    OBLIGATIONS.append(ch("tlcp", "h_chain_tlcp", n, "x509_certs_verify_tlcp: accept <=> reference predicate incl. encryption certificate", tier=t))

OBLIGATIONS += [
    {"id": "C07-b.exts_check", "harness": "harness/C07/profile.c", "entry": "h_exts_check", "units": ["x509_ext.c"],
     "remove": {"x509_ext.c": ["x509_ext_from_der", "x509_basic_constraints_from_der", "x509_ext_key_usage_from_der"]},
     "defs": ["-DNEXT=4"], "unwind": 8, "timeout": 600,
     "title": "x509_exts_check: accepted => CA has BasicConstraints cA, keyUsage/extKeyUsage fit the role, no unrecognised critical extension",
     "bounds": "up to 4 extensions (each type at most once), all criticality / cA / pathLen / keyUsage / extKeyUsage values, 5 roles",
     "stubs": ["x509_ext_from_der and the value decoders return arbitrary decoded fields"]},
    {"id": "C07-b.validity", "harness": "harness/C07/profile.c", "entry": "h_validity", "units": ["x509_cer.c"],
     "unwind": 4, "timeout": 300, "exact": True, "allow_nobody": [],
     "title": "x509_validity_check: accepted <=> notBefore <= now <= notAfter (and lifetime <= max)", "bounds": "all times below 2^40 s"},
]
OBLIGATIONS += [
    {"id": "C07-c.cert_check", "harness": "harness/C07/certcheck.c", "entry": "h_cert_check", "units": ["x509_cer.c"],
     "remove": {"x509_cer.c": ["x509_cert_get_details", "x509_name_check", "x509_cert_print", "x509_cert_get_issuer", "x509_cert_get_subject", "x509_cert_get_subject_public_key", "x509_signed_verify"]}, "unwind": 8, "timeout": 600,
     "title": "x509_cert_check accepts => v3, non-empty serial, now within the validity period, well-formed non-empty issuer and subject, extension profile of the role accepted, inner = outer signature algorithm",
     "bounds": "all decoded field values (abstract parser), all times below 2^40 s", "stubs": ["x509_cert_get_details: abstract decoded fields", "x509_name_check / x509_exts_check: arbitrary verdicts (x509_exts_check itself: C07-b)", "time(): arbitrary"]},
    {"id": "C07-c.link_verify", "harness": "harness/C07/certcheck.c", "entry": "h_link", "units": ["x509_cer.c"],
     "remove": {"x509_cer.c": ["x509_cert_get_details", "x509_name_check", "x509_cert_print", "x509_cert_get_issuer", "x509_cert_get_subject", "x509_cert_get_subject_public_key", "x509_signed_verify"]}, "unwind": 8, "timeout": 600,
     "title": "x509_cert_verify_by_ca_cert accepts <=> issuer(cert) = subject(CA) byte for byte and x509_signed_verify accepts under the CA certificate's public key and the caller's ID",
     "bounds": "names of 1..3 bytes, all contents; all outcomes of the field extractors", "stubs": ["field extractors: abstract", "x509_signed_verify: arbitrary verdict, records its arguments (the function itself: C15)"]},
]
NOTE = "C07: certificate chain validation."
