H = "harness/C17/limb.c"
RM = ["sm9_z256_print", "sm9_z256_from_hex", "sm9_z256_equ_hex", "sm9_z256_rand_range", "sm9_z256_print_bn"]
def limb(name, entry, title, **kw):
    d = {"id": "C17.limb." + name, "harness": H, "entry": entry, "units": ["sm9_z256.c"], "title": title, "exact": True,
         "bounds": "none (all 256-bit operands)", "timeout": 600, "unwind": 40, "backend": "cadical"}
    d.update(kw)
    return d
OBLIGATIONS = [
    limb("consts", "h_consts", "p, n equal the GB/T 38635.1 constants"),
    limb("add", "h_add", "sm9_z256_add = a+b with carry"),
    limb("sub", "h_sub", "sm9_z256_sub = a-b with borrow"),
    limb("cmp", "h_cmp", "cmp/equ/is_zero agree with integer order"),
    limb("bytes", "h_bytes", "from_bytes big-endian; to_bytes inverts"),
    limb("modp_add", "h_modp_add", "modp_add = a+b mod p, reduced"),
    limb("modp_sub", "h_modp_sub", "modp_sub = a-b mod p"),
    limb("modn_add", "h_modn_add", "modn_add = a+b mod n"),
    limb("modn_sub", "h_modn_sub", "modn_sub = a-b mod n"),
    limb("modp_neg", "h_modp_neg", "modp_neg = -a mod p, reduced"),
    limb("modp_dbl", "h_modp_dbl", "modp_dbl = 2a mod p"),
    limb("modp_tri", "h_modp_tri", "modp_tri = 3a mod p"),
    limb("modp_haf", "h_modp_haf", "modp_haf = a/2 mod p"),
    {"id": "C17.sm9_decrypt_mac", "harness": "harness/C17/dec.c", "entry": "h_sm9_decrypt", "units": ["sm9_enc.c"],
     "remove": {"sm9_enc.c": ["sm9_kem_decrypt", "sm9_kem_encrypt", "sm9_do_encrypt", "sm9_encrypt", "sm9_decrypt", "sm9_ciphertext_to_der", "sm9_ciphertext_from_der", "sm9_ciphertext_print"]},
     "defs": ["-DCL=5"], "unwind": 40, "timeout": 300,
     "title": "sm9_do_decrypt accepts only if all 32 bytes of C3 equal HMAC(K2, C2); M = C2 xor K1", "bounds": "C2 of 5 bytes, all contents",
     "stubs": ["sm9_kem_decrypt: arbitrary key material / verdict", "sm3_hmac_*: ideal MAC probe"]},
]
NOTE = ("C17: SM9. Decided here: the 256-bit limb layer and Fp add/sub/neg/dbl/tri/haf at full width, and the MAC-then-decrypt control flow. "
        "NOT decided (declared outside the claim): bilinearity / non-degeneracy of the R-ate pairing, the Fp2/Fp4/Fp12 tower and G1/G2 formulas, "
        "the 256-bit multiplier and Montgomery reduction (no solver verdict within reach, see DESIGN.md).")
