H = "harness/C17/limb.c"
RM = ["sm9_z256_print", "sm9_z256_from_hex", "sm9_z256_equ_hex", "sm9_z256_rand_range", "sm9_z256_print_bn"]
def limb(name, entry, title, **kw):
    d = {"id": "C17.limb." + name, "harness": H, "entry": entry, "units": ["sm9_z256.c"], "title": title, "exact": True,
         "bounds": "none (all 256-bit operands)", "timeout": 600, "unwind": 40, "backend": "cadical"}
    d.update(kw)
    return d
OBLIGATIONS = [
    limb("consts", "h_consts", "p, n equal the GB/T 38635.1 constants"),
    limb("add", "h_add", "sm9_z256_add = a+b with carry"),
    limb("sub", "h_sub", "sm9_z256_sub = a-b with borrow"),
    limb("cmp", "h_cmp", "cmp/equ/is_zero agree with integer order"),
    limb("bytes", "h_bytes", "from_bytes big-endian; to_bytes inverts"),
    limb("modp_add", "h_modp_add", "modp_add = a+b mod p, reduced"),
    limb("modp_sub", "h_modp_sub", "modp_sub = a-b mod p"),
    limb("modn_add", "h_modn_add", "modn_add = a+b mod n"),
    limb("modn_sub", "h_modn_sub", "modn_sub = a-b mod n"),
    limb("modp_neg", "h_modp_neg", "modp_neg = -a mod p, reduced"),
    limb("modp_dbl", "h_modp_dbl", "modp_dbl = 2a mod p"),
    limb("modp_tri", "h_modp_tri", "modp_tri = 3a mod p"),
    limb("modp_haf", "h_modp_haf", "modp_haf = a/2 mod p"),
    {"id": "C17.sm9_decrypt_mac", "harness": "harness/C17/dec.c", "entry": "h_sm9_decrypt", "units": ["sm9_enc.c"],
     "remove": {"sm9_enc.c": ["sm9_kem_decrypt", "sm9_kem_encrypt", "sm9_do_encrypt", "sm9_encrypt", "sm9_decrypt", "sm9_ciphertext_to_der", "sm9_ciphertext_from_der", "sm9_ciphertext_print"]},
     "defs": ["-DCL=5"], "unwind": 40, "timeout": 300,
     "title": "sm9_do_decrypt accepts only if all 32 bytes of C3 equal HMAC(K2, C2); M = C2 xor K1", "bounds": "C2 of 5 bytes, all contents",
     "stubs": ["sm9_kem_decrypt: arbitrary key material / verdict", "sm3_hmac_*: ideal MAC probe"]},
    {"id": "C17.hash1", "harness": "harness/C17/hash1.c", "entry": "h_hash1", "units": ["sm9_key.c"], "unwind": 40, "timeout": 300,
     "title": "sm9_z256_hash1 absorbs 0x01 || the whole identity || hid || counter in both evaluations and reduces digest1 || digest2", "bounds": "identity length 1..8191 (symbolic), any hid",
     "stubs": ["sm3_*: call probe (pointer, length)", "sm9_z256_modn_from_hash: recorder"]},
    {"id": "C17.signature_der", "harness": "harness/C17/sigder.c", "entry": "h_sig_der", "units": ["sm9_sign.c", "asn1.c", "sm9_z256.c"],
     "remove": {"sm9_sign.c": ["sm9_do_verify", "sm9_do_sign"], "sm9_z256.c": RM + ["sm9_z256_point_to_uncompressed_octets", "sm9_z256_point_from_uncompressed_octets"]}, "unwind": 70, "timeout": 600,
     "title": "SM9 signature DER: from_der(to_der(sig)) = sig, dry run = written = 104 bytes, exactly the encoding consumed, h >= N refused; sm9_verify_finish refuses trailing bytes and verifies exactly the decoded (h, S)",
     "bounds": "all h, all point octets (abstract injective point codec), 0..2 trailing bytes", "stubs": ["point octet codec: abstract", "sm9_do_verify: arbitrary verdict, records its argument"]},
] + [
    {"id": "C17.ciphertext_der.c%d" % cl, "harness": "harness/C17/ctder.c", "entry": "h_ct_der", "units": ["sm9_enc.c", "asn1.c"], "defs": ["-DCL=%d" % cl],
     "remove": {"sm9_enc.c": ["sm9_do_decrypt", "sm9_do_encrypt", "sm9_kem_encrypt", "sm9_kem_decrypt", "sm9_ciphertext_print"]}, "unwind": max(70, cl + 5), "timeout": 900, "tier": "quick" if cl in (0, 3) else "thorough",
     "title": "SM9 ciphertext DER: from_der(to_der(C)) = C, dry run = written, exactly the encoding consumed; sm9_decrypt refuses trailing bytes and hands exactly the decoded parts to sm9_do_decrypt",
     "bounds": "C2 of %d bytes (all contents), all C3 and C1 octets (abstract injective point codec), 0..1 trailing bytes" % cl, "stubs": ["point octet codec: abstract", "sm9_do_decrypt: arbitrary verdict, records its arguments"]}
    for cl in (0, 3, 130, 255)
] + [
    {"id": "C17.sm9_encrypt_mac", "harness": "harness/C17/dec.c", "entry": "h_sm9_encrypt", "units": ["sm9_enc.c"],
     "remove": {"sm9_enc.c": ["sm9_kem_decrypt", "sm9_kem_encrypt", "sm9_do_decrypt", "sm9_encrypt", "sm9_decrypt", "sm9_ciphertext_to_der", "sm9_ciphertext_from_der", "sm9_ciphertext_print"]},
     "defs": ["-DCL=5"], "unwind": 40, "timeout": 300,
     "title": "sm9_do_encrypt: C2 = M xor K1, C3 = HMAC(K2, C2), K2 taken right after K1; fails iff the encapsulation fails", "bounds": "M of 5 bytes, all contents",
     "stubs": ["sm9_kem_encrypt: arbitrary key material / verdict", "sm3_hmac_*: ideal MAC probe"]},
]
SP_RM = ["sm9_z256_modp_add", "sm9_z256_modp_sub", "sm9_z256_modp_dbl", "sm9_z256_modp_tri", "sm9_z256_modp_neg", "sm9_z256_modp_haf", "sm9_z256_modp_mont_mul", "sm9_z256_modp_mont_inv"]
FP2_RM = ["sm9_z256_fp2_mul", "sm9_z256_fp2_sqr", "sm9_z256_fp2_mul_u", "sm9_z256_fp2_sqr_u", "sm9_z256_fp2_a_mul_u", "sm9_z256_fp2_inv"]
FP4_RM = ["sm9_z256_fp4_mul", "sm9_z256_fp4_sqr", "sm9_z256_fp4_mul_v", "sm9_z256_fp4_sqr_v", "sm9_z256_fp4_a_mul_v", "sm9_z256_fp4_inv"]
SP_STUB = "mod-p layer (add, sub, dbl, tri, neg, haf, mont_mul, mont_inv) instantiated over F_%d with Montgomery radix 2 (models/sm9_smallp.c, include/smallf.h); Montgomery constants of the unit rewritten accordingly"
def tower(name, entry, title, pf=13, defs=(), ring=None, **kw):
    """ring: None = real tower down to the mod-p layer; 'fp2' / 'fp4' = the layer below instantiated by the base ring F_pf (harness/C17/tower_ring.c)"""
    d = {"id": "C17.tower.%s.p%d" % (name, pf), "harness": "harness/C17/tower_ring.c" if ring else "harness/C17/tower.c", "entry": entry, "units": ["sm9_z256.c"],
         "models": ["models/sm9_smallp.c"], "remove": {"sm9_z256.c": RM + SP_RM + {None: [], "fp2": FP2_RM, "fp4": FP4_RM}[ring]}, "unit_defs": {"sm9_z256.c": ["-Dstatic="]},
         "defs": ["-DPF=%d" % pf] + list(defs), "unwind": 8, "timeout": 900, "title": title, "backends": ["cadical", "kissat"],
         "bounds": ("field F_%d (M4''), all operands" % pf) if not ring else
                   ("the layer below (%s) instantiated by the ring F_%d with the adjoined element mapped to every constant c of F_%d; all operands" % ("Fp2" if ring == "fp2" else "Fp4", pf, pf)),
         "stubs": [SP_STUB % pf] + ([] if not ring else ["multiplicative functions of the layer below (%s) are the base ring's (harness/C17/tower_ring.c)" % ", ".join(FP2_RM if ring == "fp2" else FP4_RM)])}
    d.update(kw)
    return d
G1 = ((0, "g1_dbl_xy", "G1 dbl, neg, get_xy, is_on_curve, equ, is_at_infinity"), (1, "g1_add", "G1 point_add = group law (incl. P = Q, P = -Q, infinity)"), (2, "g1_sub", "G1 point_sub"),
      (3, "g1_add_affine", "G1 add_affine / sub_affine for P != +-Q"), (4, "g1_on_curve", "G1 is_on_curve exact"))
G2 = ((0, "g2_dbl_xy", "G2 twist dbl, neg, get_xy, is_on_curve, is_at_infinity"), (1, "g2_add_full", "G2 twist_point_add_full = group law (incl. P = Q, P = -Q, infinity)"),
      (2, "g2_add_mixed", "G2 twist_point_add (affine second operand) = group law"), (3, "g2_sub", "G2 twist_point_sub"), (4, "g2_equ_on_curve", "G2 equ and is_on_curve exact"))
for pf in (5, 7, 13):
    q = "quick" if pf == 7 else "thorough"
    OBLIGATIONS += [
        tower("fp2_ring", "h_fp2_ring", "Fp2 add/sub/neg/dbl/tri/haf/mul/mul_u/mul_fp/sqr/sqr_u/conjugate/a_mul_u, predicates, in place = arithmetic in Fp[u]/(u^2+2)", pf, tier=q),
        tower("fp2_inv", "h_fp2_inv", "Fp2 inv (three branches) and div", pf, tier="quick" if pf in (7, 13) else "thorough"),
        tower("fp4_over_ring", "h_fp4_over_ring", "Fp4 mul/mul_v/sqr/sqr_v/a_mul_v/inv (also in place) = arithmetic in R[v]/(v^2-u) for the base ring R", pf, ["-DLEVEL=2"], ring="fp2", tier="quick" if pf in (7, 13) else "thorough"),
        tower("fp4_linear", "h_fp4_ring", "Fp4 add/sub/neg/dbl/haf/mul_fp/mul_fp2/conjugate/a_mul_v, predicates (real Fp2 below)", pf, ["-DPART=2"], tier="thorough"),
    ]
    for part, nm, ti in ((0, "fp12_mul", "Fp12 mul (also in place) = product in R[w]/(w^3-v)"), (1, "fp12_sqr_linear", "Fp12 sqr, add, sub, neg, equ, set_one"), (2, "fp12_inv", "Fp12 inv, both branches")):
        OBLIGATIONS.append(tower(nm, "h_fp12_over_ring", ti + " for the base ring R", pf, ["-DLEVEL=3", "-DPART=%d" % part], ring="fp4", tier=q))
    for part, nm, ti in G1:
        OBLIGATIONS.append(tower(nm, "h_g1", ti + " on every curve y^2 = x^3 + b over F_%d" % pf, pf, ["-DPART=%d" % part], tier=q))
    for part, nm, ti in G2:
        OBLIGATIONS.append(tower(nm + "_over_field", "h_g2_over_field", ti + " on every curve y^2 = x^3 + b over the base field", pf, ["-DLEVEL=22", "-DPART=%d" % part], ring="fp2", tier=q))
# the real Fp4 on the real Fp2, and the real twist formulas on the real Fp2, at the smallest field (the SAT search is close to exhaustive in the operands: 5^8 and more)
OBLIGATIONS += [
    tower("fp4_mul", "h_fp4_ring", "Fp4 mul on the real Fp2 = product in Fp2[v]/(v^2-u)", 5, ["-DPART=0"], tier="thorough", timeout=1800),
    tower("fp4_sqr_mulv", "h_fp4_ring", "Fp4 mul_v, sqr, sqr_v on the real Fp2", 5, ["-DPART=1"], tier="thorough", timeout=1800),
    tower("fp4_inv", "h_fp4_inv", "Fp4 inv on the real Fp2", 5, tier="thorough"),
    tower("g2_dbl_xy", "h_g2", "G2 twist dbl, neg, get_xy, is_on_curve on the real Fp2, every curve over F_25", 5, ["-DPART=0"], tier="thorough", timeout=1800),
    tower("g2_equ_on_curve", "h_g2", "G2 equ / is_on_curve exact on the real Fp2, every curve over F_25", 5, ["-DPART=4"], tier="thorough", timeout=1800),
]
ID_RM = ["sm9_z256_order", "sm9_z256_generator", "sm9_z256_twist_generator", "sm9_z256_modn_add", "sm9_z256_modn_sub", "sm9_z256_modn_mul", "sm9_z256_modn_inv", "sm9_z256_modn_from_hash",
         "sm9_z256_rand_range", "sm9_z256_point_mul", "sm9_z256_point_mul_generator", "sm9_z256_point_add", "sm9_z256_point_sub", "sm9_z256_point_is_on_curve", "sm9_z256_point_equ",
         "sm9_z256_point_to_uncompressed_octets", "sm9_z256_point_from_uncompressed_octets", "sm9_z256_twist_point_mul", "sm9_z256_twist_point_mul_generator", "sm9_z256_twist_point_add_full",
         "sm9_z256_pairing", "sm9_z256_fp12_pow", "sm9_z256_fp12_mul", "sm9_z256_fp12_to_bytes"]
def proto(name, entry, title, units, q=13, defs=(), **kw):
    d = {"id": "C17.proto.%s.q%d" % (name, q), "harness": "harness/C17/proto.c", "entry": entry, "units": units + ["sm9_key.c", "sm9_z256.c", "hex.c"], "models": ["models/sm9_ideal.c"],
         "remove": {"sm9_z256.c": [f for f in RM if f != "sm9_z256_from_hex"] + ID_RM}, "defs": ["-DSQ=%d" % q] + list(defs), "unwind": 8, "unwindset": ["sm9_z256_modn_from_hash.0:33", "strlen.0:70", "memcmp.0:34", "hex2bin.0:40", "hex_to_bytes.0:40"], "timeout": 900, "title": title,
         "bounds": "ideal bilinear group of prime order %d (M7): every master secret, identity hash, nonce and H1/H2/KDF value; 1-byte identities and messages; at most one retry" % q,
         "stubs": ["models/sm9_ideal.c: G1, G2, GT by discrete logarithm mod %d, pairing = product of logarithms, SM3 as injective transcript recorder, H1/H2/KDF lazily sampled random functions, rand_range arbitrary" % q]}
    d.update(kw)
    return d
OBLIGATIONS += [
    proto("sign_verify", "h_sign_verify", "extract, sm9_do_sign, sm9_do_verify: signature equations hold and the signature verifies (incl. the retry path)", ["sm9_sign.c"]),
    proto("verify_sound", "h_verify_sound", "sm9_do_verify accepts exactly when h = H2(M || w') with w' from the verification equation", ["sm9_sign.c"]),
    proto("verify_binding", "h_verify_binding", "a signature presented under an identity with another H1 value yields a different w'", ["sm9_sign.c"]),
    proto("kem", "h_kem", "extract, sm9_kem_encrypt, sm9_kem_decrypt: C = [r]Q, both sides derive the same non-zero K (incl. the retry path)", ["sm9_enc.c"]),
    proto("exch", "h_exch", "sm9_exch_step_1A/1B/2A: both parties derive the same key (incl. the retry path of 1B), 2A terminates", ["sm9_exch.c"]),
    proto("exch_2A_untrusted", "h_exch_2A_untrusted", "sm9_exch_step_2A on an arbitrary RB: terminates after one KDF evaluation; success iff the key is not all zero", ["sm9_exch.c"]),
]
NOTE = ("C17: SM9. Decided here: the 256-bit limb layer and Fp add/sub/neg/dbl/tri/haf at full width, and the MAC-then-decrypt control flow. "
        "NOT decided (declared outside the claim): bilinearity / non-degeneracy of the R-ate pairing, the Fp2/Fp4/Fp12 tower and G1/G2 formulas, "
        "the 256-bit multiplier and Montgomery reduction (no solver verdict within reach, see DESIGN.md).")
