from .common import Z256_IO
from . import C01, C11
import copy
KEY_RM = ["sm2_key_print", "sm2_public_key_print", "sm2_private_key_print", "sm2_private_key_info_print", "sm2_public_key_info_print",
          "sm2_private_key_info_encrypt_to_pem", "sm2_private_key_info_decrypt_from_pem", "sm2_private_key_to_pem", "sm2_private_key_from_pem",
          "sm2_public_key_info_to_pem", "sm2_public_key_info_from_pem", "sm2_private_key_info_to_pem", "sm2_private_key_info_from_pem", "sm2_public_key_digest"]
OBLIGATIONS = [
    {"id": "C18.sm2_keygen", "harness": "harness/C18/rand.c", "entry": "h_keygen", "units": ["sm2_key.c", "sm2_z256.c"],
     "remove": {"sm2_z256.c": ["sm2_z256_point_mul_generator", "sm2_z256_point_to_bytes", "sm2_z256_point_mul"] + Z256_IO, "sm2_key.c": KEY_RM},
     "unwind": 70, "unwindset": ["sm2_z256_rand_range.0:3", "sm2_key_generate.0:3"], "cbmc": ["--no-unwinding-assertions"], "timeout": 600, "backend": "cadical",
     "title": "sm2_key_generate: private key = last accepted entropy draw, in [1,n-2], public key from it; a failed draw is reported and nothing is derived",
     "bounds": "failure at draw 0..2 or never; up to 3 rejection-sampling draws (longer rejection runs cut)",
     "stubs": ["rand_bytes: arbitrary bytes / symbolic failure index", "point_mul_generator: recorder"]},
    {"id": "C18.sm2_encrypt_nonce", "harness": "harness/C18/rand.c", "entry": "h_encrypt_nonce", "units": ["sm2_enc.c", "sm2_z256.c"],
     "remove": {"sm2_z256.c": ["sm2_z256_point_mul_generator", "sm2_z256_point_to_bytes", "sm2_z256_point_mul"] + Z256_IO,
                "sm2_enc.c": ["sm2_kdf", "sm2_encrypt_pre_compute", "sm2_do_encrypt_ex", "sm2_do_encrypt_fixlen", "sm2_do_decrypt", "sm2_ciphertext_to_der", "sm2_ciphertext_from_der",
                              "sm2_ciphertext_print", "sm2_encrypt", "sm2_encrypt_fixlen", "sm2_decrypt", "sm2_encrypt_init", "sm2_encrypt_update", "sm2_encrypt_finish", "sm2_encrypt_reset",
                              "sm2_decrypt_init", "sm2_decrypt_update", "sm2_decrypt_finish", "sm2_decrypt_reset"]},
     "unwind": 70, "unwindset": ["sm2_z256_rand_range.0:3", "sm2_do_encrypt.0:3", "sm2_do_encrypt.1:3"], "cbmc": ["--no-unwinding-assertions"], "timeout": 600, "backend": "cadical",
     "title": "sm2_do_encrypt: ephemeral scalar = last accepted entropy draw, in [1,n-1] (never 0); failed draw reported, no C1 afterwards",
     "bounds": "failure at draw 0..2 or never; up to 3 draws", "stubs": ["rand_bytes model", "point ops / KDF / SM3: opaque"]},
    {"id": "C18.tls_randoms", "harness": "harness/C18/rand.c", "entry": "h_tls_random", "units": ["tls.c", "tls_trace.c"], "remove": {"tls.c": ["tls_record_recv", "tls_record_send"]},
     "unwind": 50, "timeout": 600,
     "title": "tls_random_generate / tls_pre_master_secret_generate: clock + entropy bytes verbatim; failed draw reported",
     "bounds": "all clock values and entropy bytes, failure at draw 0 or never", "stubs": ["rand_bytes, time"]},
    {"id": "C18.pkcs8_encrypt", "harness": "harness/C18/pkcs8.c", "entry": "h_pkcs8_encrypt", "units": ["sm2_key.c"],
     "remove": {"sm2_key.c": KEY_RM + ["sm2_private_key_info_to_der", "sm2_key_generate"]},
     "unwind": 20, "timeout": 600,
     "title": "sm2_private_key_info_encrypt_to_der: salt and IV are the two entropy draws (used and emitted); a failure of either is reported and nothing is emitted",
     "bounds": "failure at draw 0, 1 or never", "stubs": ["rand_bytes model", "pbkdf2 / SM4-CBC / PKCS#8 encoder / key encoder: recorders"]},
    {"id": "C18.sm9_pkcs8_encrypt", "harness": "harness/C18/pkcs8.c", "entry": "h_pkcs8_encrypt", "units": ["sm9_key.c"], "defs": ["-DSM9"], "unit_defs": {"sm9_key.c": ["-Dstatic="]},
     "remove": {"sm9_key.c": ["sm9_sign_master_key_to_der", "sm9_private_key_info_to_der"]}, "unwind": 20, "timeout": 600,
     "title": "sm9_*_info_encrypt_to_der (shared helper sm9_private_key_info_encrypt_to_der): salt and IV are the two entropy draws (used and emitted); a failure of either is reported and nothing is emitted",
     "bounds": "failure at draw 0, 1 or never; entered through sm9_sign_master_key_info_encrypt_to_der", "stubs": ["rand_bytes model", "pbkdf2 / SM4-CBC / PKCS#8 encoder / key encoders: recorders"]},
    {"id": "C18.sm9_rand_range", "harness": "harness/C18/rand.c", "entry": "h_sm9_rand_range", "units": ["sm9_z256.c"], "remove": {"sm9_z256.c": ["sm9_z256_print", "sm9_z256_from_hex", "sm9_z256_equ_hex", "sm9_z256_print_bn"]},
     "defs": ["-DSM9RR"], "unwind": 6, "unwindset": ["rand_bytes.0:34"], "timeout": 600,
     "title": "sm9_z256_rand_range: success only with the last drawn value and only if it is below the range; a failing draw (first or later) is reported",
     "bounds": "range = N; up to 3 draws (the third one assumed in range), failure at draw 0, 1, 2 or never", "stubs": ["rand_bytes model"]},
]
for mod, oid, nid in ((C01, "C01-e.sign_finish_nonce_step", "C18.sm2_sign_ctx_nonce_step"), (C11, "C11.cbc_encrypt_rand_fail", "C18.tls_cbc_iv_fail")):
    for o in mod.OBLIGATIONS:
        if o["id"] == oid:
            d = copy.deepcopy(o); d["id"] = nid; OBLIGATIONS.append(d)
from obl import C17
for nm, entry, title, units, defs in (
        ("sm9_exch_fresh", "h_exch", "sm9_exch_step_1A/1B: the ephemeral secret rA / rB is the value drawn from the entropy source and RA / RB is computed from it", ["sm9_exch.c"], ["-DFRESH"]),
        ("sm9_sign_fail_closed", "h_fail_closed", "sm9_do_sign reports failure when the entropy source fails at the first or second draw", ["sm9_sign.c"], ["-DOP=0"]),
        ("sm9_kem_fail_closed", "h_fail_closed", "sm9_kem_encrypt reports failure when the entropy source fails at the first or second draw", ["sm9_enc.c"], ["-DOP=1"]),
        ("sm9_exch1A_fail_closed", "h_fail_closed", "sm9_exch_step_1A reports failure when the entropy source fails", ["sm9_exch.c"], ["-DOP=2"]),
        ("sm9_exch1B_fail_closed", "h_fail_closed", "sm9_exch_step_1B reports failure when the entropy source fails at the first or second draw", ["sm9_exch.c", "sm9_enc.c"], ["-DOP=3"])):
    d = C17.proto(nm, entry, title, units, 13, defs); d["id"] = "C18." + nm; OBLIGATIONS.append(d)
NOTE = "C18: randomised operations."
