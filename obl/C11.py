TLS_KEEP = ["tls_cbc_encrypt", "tls_cbc_decrypt", "tls_record_encrypt", "tls_record_decrypt", "tls_seq_num_incr"]
def cbc(name, entry, title, **kw):
    d = {"id": "C11." + name, "harness": "harness/C11/cbc.c", "entry": entry,
         "units": ["tls.c"], "shims": {"tls.c": ["ctxcopy_shim.h"]},
         "defs": [], "unwind": 260, "cbmc": ["--max-field-sensitivity-array-size", "200"], "timeout": 900, "title": title,
         "stubs": ["ideal CBC layer (lazy-sampled table) for sm4_cbc_encrypt/decrypt_blocks", "ideal MAC at the sm3_hmac_update/finish interface (call-level transcript log, collision-free tags)", "rand_bytes nondet"]}
    d.update(kw)
    return d
RC = ["-DREC_CAP=224", "-DREC_SLOTS=12"]
OBLIGATIONS = [
    cbc("cbc_roundtrip.L%d_%d" % (lo, hi), "h_cbc_roundtrip", "tls_record_decrypt(tls_record_encrypt(r)) = r; other seq/type/version rejected",
        defs=RC + ["-DPMIN=%d" % lo, "-DPMAX=%d" % hi, "-DWRONG_CONTEXT"], bounds="payload %d..%d bytes (case split), all keys/seq/IV" % (lo, hi),
        tier=("quick" if hi <= 17 else "thorough"))
    for lo, hi in [(0, 1), (2, 3), (4, 5), (6, 7), (8, 9), (10, 11), (12, 13), (14, 15), (16, 17), (18, 23), (24, 31), (32, 39), (40, 47), (48, 55), (56, 63), (64, 70)]
] + [
    cbc("cbc_decrypt_sound%d.K%d_%d" % (body, lo, hi), "h_cbc_decrypt_sound", "tls_cbc_decrypt accepts => MAC stream = seq||type||version||len||payload, 32 MAC bytes and all padding compared",
        defs=["-DREC_CAP=224", "-DREC_SLOTS=10", "-DBODY=%d" % body, "-DKMIN=%d" % lo, "-DKMAX=%d" % hi],
        bounds="arbitrary decrypted bodies of %d bytes, last byte (padding length) in %d..%d (-1 = longer than the record)" % (body, lo, hi),
        tier=("quick" if body <= 64 else "thorough"))
    for body in (48, 64, 96) for lo, hi in [(k, min(k + 3, body - 33)) for k in range(-1, body - 32, 4)]
] + [
    cbc("cbc_decrypt_badlen.N%d_%d" % (lo, hi), "h_cbc_decrypt_badlen", "truncated/unaligned bodies (< 64 or not a multiple of 16) refused",
        defs=RC + ["-DNMIN=%d" % lo, "-DNMAX=%d" % hi], bounds="lengths %d..%d" % (lo, hi))
    for lo, hi in [(0, 24), (25, 49), (50, 74), (75, 100)]
] + [
    cbc("cbc_encrypt_rand_fail", "h_cbc_encrypt_rand_fail", "IV entropy failure is reported"),
    {"id": "C11.seq_incr", "harness": "harness/C11/seq.c", "entry": "h_seq_incr", "units": ["tls.c"], "unwind": 10, "exact": True,
     "title": "tls_seq_num_incr = +1 on the 64-bit big-endian counter", "bounds": "none (all 2^64 values)"},
]

def t13(name, entry, title, **kw):
    d = {"id": "C11." + name, "harness": "harness/C11/tls13rec.c", "entry": entry,
         "units": ["tls13.c", "tls_trace.c"], "unwind": 70, "timeout": 900, "title": title,
         "cbmc": ["--max-field-sensitivity-array-size", "128"],
         "stubs": ["SM4-GCM as ideal AEAD (lazy-sampled table)", "BLOCK_CIPHER_sm4 descriptor"]}
    d.update(kw)
    return d
OBLIGATIONS += [
] + [
    t13("tls13_roundtrip.L%d_%d" % (lo, hi), "h13_roundtrip", "tls13_record_decrypt(tls13_record_encrypt(r)) = r; nonce = iv xor seq, AAD = header; other seq rejected",
        defs=["-DPMIN=%d" % lo, "-DPMAX=%d" % hi], bounds="payload %d..%d bytes x padding 0..2 (case split), all keys/iv/seq/types" % (lo, hi),
        tier=("quick" if hi <= 11 else "thorough"), backend="cadical")
    for lo, hi in [(0, 1), (2, 3), (4, 5), (6, 7), (8, 9), (10, 11), (12, 15), (16, 19), (20, 23), (24, 27), (28, 31), (32, 35), (36, 40)]
] + [
    t13("tls13_open_arbitrary", "h13_open_arbitrary", "tls13_gcm_decrypt on any AEAD-accepted inner plaintext: type = last non-zero byte, known type, length < ciphertext, all-zero rejected",
        defs=["-DPMAX=12"], bounds="inner plaintext 0..12 bytes, arbitrary content",
        thorough={"defs": ["-DPMAX=40"], "timeout": 3000, "bounds": "inner plaintext 0..40 bytes"}),
    t13("tls13_open_reject", "h13_open_reject", "inputs shorter than a tag or failing the AEAD are rejected", bounds="length 0..40"),
]
NOTE = "C11: record protection."
