"""Shared lists for obligation specs."""
# functions of src/sm2_z256.c replaced by models/sm2_small.c (M4)
SMALL_REMOVE = [
    "sm2_z256_order", "sm2_z256_order_minus_one", "sm2_z256_rand_range",
    "sm2_z256_modn_add", "sm2_z256_modn_sub", "sm2_z256_modn_neg", "sm2_z256_modn_mul", "sm2_z256_modn_sqr",
    "sm2_z256_modn_inv", "sm2_z256_modn_to_mont", "sm2_z256_modn_from_mont", "sm2_z256_modn_mont_mul",
    "sm2_z256_modn_mont_sqr", "sm2_z256_modn_mont_inv",
    "sm2_z256_point_set_infinity", "sm2_z256_point_is_at_infinity", "sm2_z256_point_is_on_curve",
    "sm2_z256_point_mul_generator", "sm2_z256_point_mul", "sm2_z256_point_mul_pre_compute",
    "sm2_z256_point_mul_ex", "sm2_z256_point_mul_sum", "sm2_z256_point_add", "sm2_z256_point_sub",
    "sm2_z256_point_neg", "sm2_z256_point_dbl", "sm2_z256_point_equ", "sm2_z256_point_get_xy",
]
# diagnostic / text helpers of sm2_z256.c never needed by obligations (drag in stdio / hex)
Z256_IO = ["sm2_z256_print", "sm2_z256_point_print", "sm2_z256_point_affine_print", "sm2_z256_from_hex",
           "sm2_z256_equ_hex", "sm2_z256_point_from_hex", "sm2_z256_point_equ_hex", "sm2_z256_point_from_hash",
           "sm2_z256_point_to_der", "sm2_z256_point_from_der"]
