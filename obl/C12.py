from .common import Z256_IO
def pt(name, entry, title, **kw):
    d = {"id": "C12." + name, "harness": "harness/C12/points.c", "entry": entry, "units": ["sm2_z256.c", "sm2_key.c"],
         "remove": {"sm2_z256.c": ["sm2_z256_modp_to_mont", "sm2_z256_modp_from_mont", "sm2_z256_point_is_on_curve", "sm2_z256_point_mul_generator", "sm2_z256_rand_range", "sm2_z256_point_from_x_bytes"] + Z256_IO,
                    "sm2_key.c": ["sm2_key_generate", "sm2_key_print", "sm2_public_key_print", "sm2_private_key_print", "sm2_private_key_info_print", "sm2_public_key_info_print",
                                  "sm2_private_key_info_encrypt_to_der", "sm2_private_key_info_decrypt_from_der", "sm2_private_key_info_encrypt_to_pem", "sm2_private_key_info_decrypt_from_pem",
                                  "sm2_private_key_to_pem", "sm2_private_key_from_pem", "sm2_public_key_info_to_pem", "sm2_public_key_info_from_pem", "sm2_private_key_info_to_pem", "sm2_private_key_info_from_pem",
                                  "sm2_public_key_digest"]},
         "unwind": 70, "timeout": 600, "title": title, "backend": "cadical",
         "stubs": ["sm2_z256_point_is_on_curve: recording oracle with arbitrary verdict", "modp_to_mont/from_mont: identity", "point_mul_generator: recording"]}
    d.update(kw)
    return d
OBLIGATIONS = [
    pt("from_bytes", "h_from_bytes", "point_from_bytes / point_set_xy: accept <=> x,y < p, equation holds on exactly (x,y), not (0,0)", exact=True, bounds="none (all 64-byte inputs)"),
    pt("from_octets", "h_from_octets", "point_from_octets: only 04||X||Y with valid coordinates accepted; any length 0..66, any prefix; infinity encodings refused", bounds="lengths {0,1,2,32,33,34,64,65,66}, every prefix byte (compressed forms separately)"),
    pt("private_key_range", "h_private_key_range", "sm2_key_set_private_key accepts exactly 1 <= d <= n-2", exact=True, bounds="none (all 2^256 scalars)"),
]
NOTE = "C12: imported keys and points."
