from .common import Z256_IO
def pt(name, entry, title, **kw):
    d = {"id": "C12." + name, "harness": "harness/C12/points.c", "entry": entry, "units": ["sm2_z256.c", "sm2_key.c"],
         "remove": {"sm2_z256.c": ["sm2_z256_modp_to_mont", "sm2_z256_modp_from_mont", "sm2_z256_point_is_on_curve", "sm2_z256_point_mul_generator", "sm2_z256_rand_range", "sm2_z256_point_from_x_bytes"] + Z256_IO,
                    "sm2_key.c": ["sm2_key_generate", "sm2_key_print", "sm2_public_key_print", "sm2_private_key_print", "sm2_private_key_info_print", "sm2_public_key_info_print",
                                  "sm2_private_key_info_encrypt_to_der", "sm2_private_key_info_decrypt_from_der", "sm2_private_key_info_encrypt_to_pem", "sm2_private_key_info_decrypt_from_pem",
                                  "sm2_private_key_to_pem", "sm2_private_key_from_pem", "sm2_public_key_info_to_pem", "sm2_public_key_info_from_pem", "sm2_private_key_info_to_pem", "sm2_private_key_info_from_pem",
                                  "sm2_public_key_digest"]},
         "unwind": 70, "timeout": 600, "title": title, "backend": "cadical",
         "stubs": ["sm2_z256_point_is_on_curve: recording oracle with arbitrary verdict", "modp_to_mont/from_mont: identity", "point_mul_generator: recording"]}
    d.update(kw)
    return d
OBLIGATIONS = [
    pt("from_bytes", "h_from_bytes", "point_from_bytes / point_set_xy: accept <=> x,y < p, equation holds on exactly (x,y), not (0,0)", exact=True, bounds="none (all 64-byte inputs)"),
    pt("from_octets", "h_from_octets", "point_from_octets: only 04||X||Y with valid coordinates accepted; any length 0..66, any prefix; infinity encodings refused", bounds="lengths {0,1,2,32,33,34,64,65,66}, every prefix byte (compressed forms separately)"),
    pt("private_key_range", "h_private_key_range", "sm2_key_set_private_key accepts exactly 1 <= d <= n-2", exact=True, bounds="none (all 2^256 scalars)"),
]
for el in (69, 68, 70, 4, 0):
    OBLIGATIONS.append({"id": "C12.tls13_server_key_share.len%d" % el, "harness": "harness/C12/keyshare.c", "entry": "h_server_key_share", "units": ["tls_ext.c", "tls.c"], "remove": {"tls.c": ["tls_record_recv", "tls_record_send"]},
                        "defs": ["-DEL=%d" % el], "unwind": 75, "timeout": 300, "tier": "quick" if el in (69, 68, 0) else "thorough",
                        "title": "TLS 1.3 server key_share: accepted only as (sm2p256v1, 65 octets) that passed sm2_z256_point_from_octets; malformed bodies refused without over-read",
                        "bounds": "extension body of %d arbitrary bytes (exact-size object)" % el, "stubs": ["sm2_z256_point_from_octets: recording, arbitrary verdict"]})
for el in (71, 69, 3, 0):
    OBLIGATIONS.append({"id": "C12.tls13_client_key_shares.len%d" % el, "harness": "harness/C12/keyshare.c", "entry": "h_client_key_shares", "units": ["tls13.c", "tls.c"],
                        "remove": {"tls.c": ["tls_record_recv", "tls_record_send"]},
                        "defs": ["-DEL=%d" % el], "unwind": 75, "timeout": 300, "tier": "quick" if el in (71, 3) else "thorough",
                        "title": "tls_client_key_shares_from_bytes: imported shares passed the validating decoder; malformed lists refused without touching uninitialised data",
                        "bounds": "key-share list of %d arbitrary bytes (exact-size object)" % el, "stubs": ["sm2_z256_point_from_octets: recording, arbitrary verdict"]})
SM9RM = ["sm9_z256_print", "sm9_z256_from_hex", "sm9_z256_equ_hex", "sm9_z256_rand_range", "sm9_z256_print_bn"]
for nm, en, ti in (("sm9_g1_import", "h_g1_import", "sm9_z256_point_from_uncompressed_octets: accepted exactly for 04 || x || y, x, y < p, on the curve; result = Montgomery form of those coordinates, Z = 1"),
                   ("sm9_g2_import", "h_g2_import", "sm9_z256_twist_point_from_uncompressed_octets: accepted exactly for 04 || four elements below p on the twist curve; Z = 1")):
    OBLIGATIONS.append({"id": "C12." + nm, "harness": "harness/C12/sm9import.c", "entry": en, "units": ["sm9_z256.c"],
                        "remove": {"sm9_z256.c": SM9RM + ["sm9_z256_modp_to_mont", "sm9_z256_point_is_on_curve", "sm9_z256_twist_point_is_on_curve"]}, "unwind": 135, "unwindset": ["memcmp.0:200"], "timeout": 600, "backends": ["cadical", "kissat"],
                        "title": ti, "bounds": "all 65 / 129 octets, range comparison at full width", "stubs": ["Montgomery conversion: injective recorder", "curve equation tests: arbitrary verdict (decided by C17.tower.*)"]})
OBLIGATIONS += [
    {"id": "C12.from_x_bytes", "harness": "harness/C12/fromx.c", "entry": "h_from_x_bytes", "units": ["sm2_z256.c"],
     "remove": {"sm2_z256.c": ["sm2_z256_modp_to_mont", "sm2_z256_modp_from_mont", "sm2_z256_modp_mont_sqr", "sm2_z256_modp_mont_mul", "sm2_z256_modp_add", "sm2_z256_modp_sub", "sm2_z256_modp_mont_sqrt", "sm2_z256_modp_neg",
                               "sm2_z256_print", "sm2_z256_point_print", "sm2_z256_point_affine_print", "sm2_z256_from_hex", "sm2_z256_equ_hex", "sm2_z256_point_from_hex", "sm2_z256_point_equ_hex", "sm2_z256_point_from_hash", "sm2_z256_point_to_der", "sm2_z256_point_from_der", "sm2_z256_rand_range"]},
     "unwind": 40, "timeout": 600, "backends": ["cadical", "kissat"],
     "title": "sm2_z256_point_from_x_bytes (compressed points): accepted only for x < p with a square root; X = mont(x), Z = 1, Y = the root with the requested parity",
     "bounds": "all 32-byte x, both parities, range comparison at full width", "stubs": ["field arithmetic (curve polynomial, sqrt, conversions, negation): abstract, logged"]},
    {"id": "C12.tls13_server_side_key_share.len71", "harness": "harness/C12/keyshare2.c", "entry": "h_process_client_key_share", "units": ["tls_ext.c", "tls.c", "tls_trace.c"],
     "remove": {"tls.c": ["tls_record_recv", "tls_record_send"], "tls_ext.c": ["tls13_server_key_share_ext_to_bytes"]}, "defs": ["-DEL=71"], "unwind": 75, "timeout": 600,
     "title": "tls13_process_client_key_share (server side): the client's share is used only if its 65 octets passed sm2_z256_point_from_octets; no other decoder; the validated point is handed back",
     "bounds": "extension body of 71 arbitrary bytes (exact-size object)", "stubs": ["sm2_z256_point_from_octets: recording, arbitrary verdict", "other point decoders: flagged"]},
]
NOTE = "C12: imported keys and points."
