import json, os, sys, copy
from . import C14
V = os.path.dirname(os.path.dirname(os.path.abspath(__file__)))
def PRE_HOOK():
    """Inventory of writable statics (goto symbol tables of this run) against the committed allow-list."""
    sys.path.insert(0, os.path.join(V, "tools"))
    import c20_inventory
    inv = c20_inventory.inventory()
    allow = json.load(open(os.path.join(V, "obl", "c20_allow.json")))["allow"]
    new = []
    for unit, objs in inv.items():
        for o in objs:
            if o["name"] not in allow.get(unit, []):
                new.append("%s: %s (%s, line %s)" % (unit, o["name"], o["type"], o.get("line")))
    total = sum(len(v) for v in inv.values())
    return {"violations": ["new writable static-lifetime object (library-internal mutable state shared by all threads): " + n for n in new],
            "evidence": {"writable_statics_found": total, "units_scanned": len(inv), "new_objects": new,
                         "inventory_sample": {u: [o["name"] for o in l][:5] for u, l in list(inv.items())[:6]}}}
OBLIGATIONS = [
    {"id": "C20.rand_bytes_stateless", "harness": "harness/C20/state.c", "entry": "h_rand_bytes_stateless", "units": ["rand_unix.c"],
     "cbmc": ["--nondet-static"], "unwind": 20, "timeout": 300,
     "title": "rand_bytes: every request is one OS entropy call whose bytes are returned verbatim, from arbitrary static state (no shared pool)",
     "bounds": "requests of 1..16 bytes; all static-lifetime objects start arbitrary", "stubs": ["getentropy: arbitrary bytes, may fail"]},
]
for o in C14.OBLIGATIONS:
    if o["id"] == "C14.time_roundtrip_10y":
        d = copy.deepcopy(o); d["id"] = "C20.asn1_time_stateless"; d["cbmc"] = ["--nondet-static"]
        d["title"] = "asn1_time_to_str / asn1_time_from_str round trip holds from arbitrary static state (no shared scratch table)"
        OBLIGATIONS.append(d)
NOTE = ("C20 is decided by reduction, not by exploring schedules: (i) inventory of writable static-lifetime objects from the goto symbol tables "
        "against a committed allow-list (auxiliary, syntactic), (ii) CBMC obligations that selected operations meet their specification from "
        "arbitrary static state (--nondet-static). Interleavings themselves are not explored.")
