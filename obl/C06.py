import copy
from . import C01, C14, C12, C11, C05
def take(mod, oid, newid, note):
    for o in mod.OBLIGATIONS:
        if o["id"] == oid:
            d = copy.deepcopy(o); d["id"] = newid; d["title"] = note + " [" + o.get("title", "") + "]"; d["tier"] = o.get("tier", "quick")
            return d
    raise KeyError(oid)
OBLIGATIONS = [
    {"id": "C06.tls_record_recv", "harness": "harness/C06/tlsrecv.c", "entry": "h_record_recv", "units": ["tls.c", "tls_trace.c"],
     "unwind": 8, "cbmc": ["--no-unwinding-assertions"], "unwindset": ["tls_record_recv.0:7", "tls_record_recv.1:4"], "timeout": 600,
     "shims": {"tls.c": ["tls_scale.h"], "harness/C06/tlsrecv.c": ["tls_scale.h"]},
     "title": "tls_record_recv: for every header and every short-read schedule, no byte is stored outside the TLS_MAX_RECORD_SIZE record buffer",
     "bounds": "size constants scaled (record buffer 101 bytes, M6); all 5-byte headers; up to 6 short reads for the header and 3 for the body (longer schedules cut)",
     "stubs": ["recv(): arbitrary 1..len bytes per call, asserts its destination is writable for len bytes"]},
    {"id": "C06.cert_list_capacity", "harness": "harness/C06/tlsrecv.c", "entry": "h_cert_list_capacity", "units": ["tls.c"], "defs": ["-DCERTLIST", "-DNCERT=3"],
     "remove": {"tls.c": ["tls_record_recv", "tls_record_send"]}, "shims": {"tls.c": ["tls_scale.h"], "harness/C06/tlsrecv.c": ["tls_scale.h"]},
     "unwind": 6, "timeout": 600, "title": "tls_record_get_handshake_certificate: chains of any size never overflow the 2048-byte certificate buffer",
     "bounds": "size constants scaled (certificate buffer 32 bytes, plaintext 64, M6); Certificate messages with 3 entries of arbitrary lengths, contents irrelevant",
     "stubs": ["x509_cert_from_der / x509_cert_to_der: abstract (slice = certificate; copy asserts destination writable)"]},
    {"id": "C06.asn1_tag_name", "harness": "harness/C06/misc.c", "entry": "h_tag_name", "units": ["asn1.c"], "unwind": 4, "timeout": 300, "exact": True,
     "title": "asn1_tag_name: valid string or NULL for every int tag, table never indexed out of range", "bounds": "none (all int values)"},
    take(C01, "C01-c.from_der_capacity", "C06.sm2_signature_from_der", "untrusted signature bytes"),
    take(C01, "C01-c.verify_der", "C06.sm2_verify_bytes", "untrusted signature bytes, exact-size input object"),
    take(C14, "C14.integer_canonical", "C06.asn1_integer_bytes", "untrusted INTEGER bytes, exact-size input object"),
    take(C14, "C14.int_canonical", "C06.asn1_int_bytes", "untrusted INTEGER bytes, exact-size input object"),
    take(C14, "C14.length_canonical", "C06.asn1_length_bytes", "untrusted length octets"),
    take(C14, "C14.oid_capacity_fullscale", "C06.oid_capacity_fullscale", "untrusted OID octets"),
    take(C14, "C14.oid_capacity_scaled", "C06.oid_capacity_scaled", "untrusted OID octets"),
    take(C14, "C14.seq_of_int_capacity", "C06.seq_of_int_capacity", "untrusted SEQUENCE OF INTEGER"),
    take(C14, "C14.pem_capacity", "C06.pem_capacity", "untrusted PEM text"),
    take(C14, "C14.hex", "C06.hex", "untrusted hex text"),
    take(C12, "C12.from_octets", "C06.point_from_octets", "untrusted point octets, exact-size input object"),
    take(C11, "C11.tls13_open_arbitrary", "C06.tls13_open_arbitrary", "untrusted TLS 1.3 protected record"),
    take(C11, "C11.tls13_open_reject", "C06.tls13_open_short", "untrusted TLS 1.3 protected record"),
]
for o in C11.OBLIGATIONS:
    if o["id"].startswith("C11.cbc_decrypt_badlen") or o["id"].startswith("C11.cbc_decrypt_sound48.K-1"):
        d = copy.deepcopy(o); d["id"] = o["id"].replace("C11.", "C06.tls_"); OBLIGATIONS.append(d)
for o in C05.OBLIGATIONS:
    if o["id"].startswith("C05.gcm.stream.t12"):
        d = copy.deepcopy(o); d["id"] = o["id"].replace("C05.", "C06."); OBLIGATIONS.append(d)
PARSERS = [(0, "x509_signature_algor_from_der", ["x509_alg.c", "asn1.c"]), (1, "x509_public_key_algor_from_der", ["x509_alg.c", "asn1.c", "ec.c"]),
           (2, "x509_encryption_algor_from_der", ["x509_alg.c", "asn1.c"]), (3, "x509_digest_algor_from_der", ["x509_alg.c", "asn1.c"]),
           (4, "x509_time_from_der", ["x509_cer.c", "asn1.c"]), (5, "x509_validity_from_der", ["x509_cer.c", "asn1.c"]),
           (6, "x509_explicit_exts_from_der", ["x509_cer.c", "asn1.c"]), (7, "x509_cert_from_der+get_subject+get_issuer_and_serial", ["x509_cer.c", "asn1.c", "x509_alg.c", "ec.c", "sm2_key.c"]),
           (8, "x509_crl_from_der", ["x509_crl.c", "x509_cer.c", "asn1.c", "x509_alg.c", "ec.c", "sm2_key.c", "x509_ext.c"]), (9, "x509_req_from_der", ["x509_req.c", "x509_cer.c", "asn1.c", "x509_alg.c", "ec.c", "sm2_key.c"]),
           (10, "cms_content_info_from_der", ["cms.c", "asn1.c"]), (11, "pkcs8_enced_private_key_info_from_der", ["pkcs8.c", "asn1.c", "x509_alg.c"]),
           (12, "sm2_public_key_info_from_der", ["sm2_key.c", "asn1.c", "x509_alg.c", "ec.c"])]
for w, nm, units in PARSERS:
    for ln in (10, 14):
        OBLIGATIONS.append({"id": "C06.parse.%s.len%d" % (nm.split("+")[0], ln), "harness": "harness/C06/parsers.c", "entry": "h_parse", "units": units,
                            "defs": ["-DWHICH=%d" % w, "-DLEN=%d" % ln], "unwind": 40, "timeout": 900, "object_bits": 12, "tier": "quick" if (ln == 10 and w != 7) else "thorough",
                            "allow_nobody": ["time", "sm2_z256_point_mul_generator", "sm2_z256_point_to_uncompressed_octets", "sm2_z256_point_equ", "sm2_z256_rand_range"],
                            "title": nm + " on arbitrary bytes: no access outside the exact-size input, cursor and returned slices stay inside",
                            "bounds": "every input of %d bytes" % ln, "stubs": ["sm2_z256_point_from_octets: touches first/last byte, arbitrary verdict"]})
NOTE = "C06: memory safety on untrusted input (CBMC's built-in bounds/pointer/memcpy-region checks are the oracle)."
