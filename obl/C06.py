import copy
from . import C01, C14, C12, C11, C05
def take(mod, oid, newid, note):
    for o in mod.OBLIGATIONS:
        if o["id"] == oid:
            d = copy.deepcopy(o); d["id"] = newid; d["title"] = note + " [" + o.get("title", "") + "]"; d["tier"] = o.get("tier", "quick")
            return d
    raise KeyError(oid)
OBLIGATIONS = [
    {"id": "C06.tls_record_recv", "harness": "harness/C06/tlsrecv.c", "entry": "h_record_recv", "units": ["tls.c", "tls_trace.c"],
     "unwind": 8, "cbmc": ["--no-unwinding-assertions"], "unwindset": ["tls_record_recv.0:7", "tls_record_recv.1:4"], "timeout": 600,
     "shims": {"tls.c": ["tls_scale.h"], "harness/C06/tlsrecv.c": ["tls_scale.h"]},
     "title": "tls_record_recv: for every header and every short-read schedule, no byte is stored outside the TLS_MAX_RECORD_SIZE record buffer",
     "bounds": "size constants scaled (record buffer 101 bytes, M6); all 5-byte headers; up to 6 short reads for the header and 3 for the body (longer schedules cut)",
     "stubs": ["recv(): arbitrary 1..len bytes per call, asserts its destination is writable for len bytes"]},
    {"id": "C06.cert_list_capacity", "harness": "harness/C06/tlsrecv.c", "entry": "h_cert_list_capacity", "units": ["tls.c"], "defs": ["-DCERTLIST", "-DNCERT=3"],
     "remove": {"tls.c": ["tls_record_recv", "tls_record_send"]}, "shims": {"tls.c": ["tls_scale.h"], "harness/C06/tlsrecv.c": ["tls_scale.h"]},
     "unwind": 6, "timeout": 600, "title": "tls_record_get_handshake_certificate: chains of any size never overflow the 2048-byte certificate buffer",
     "bounds": "size constants scaled (certificate buffer 32 bytes, plaintext 64, M6); Certificate messages with 3 entries of arbitrary lengths, contents irrelevant",
     "stubs": ["x509_cert_from_der / x509_cert_to_der: abstract (slice = certificate; copy asserts destination writable)"]},
    {"id": "C06.asn1_tag_name", "harness": "harness/C06/misc.c", "entry": "h_tag_name", "units": ["asn1.c"], "unwind": 4, "timeout": 300, "exact": True,
     "title": "asn1_tag_name: valid string or NULL for every int tag, table never indexed out of range", "bounds": "none (all int values)"},
    take(C01, "C01-c.from_der_capacity", "C06.sm2_signature_from_der", "untrusted signature bytes"),
    take(C01, "C01-c.verify_der", "C06.sm2_verify_bytes", "untrusted signature bytes, exact-size input object"),
    take(C14, "C14.integer_canonical", "C06.asn1_integer_bytes", "untrusted INTEGER bytes, exact-size input object"),
    take(C14, "C14.int_canonical", "C06.asn1_int_bytes", "untrusted INTEGER bytes, exact-size input object"),
    take(C14, "C14.length_canonical", "C06.asn1_length_bytes", "untrusted length octets"),
    take(C14, "C14.oid_capacity_fullscale", "C06.oid_capacity_fullscale", "untrusted OID octets"),
    take(C14, "C14.oid_capacity_scaled", "C06.oid_capacity_scaled", "untrusted OID octets"),
    take(C14, "C14.seq_of_int_capacity", "C06.seq_of_int_capacity", "untrusted SEQUENCE OF INTEGER"),
    take(C14, "C14.pem_capacity", "C06.pem_capacity", "untrusted PEM text"),
    take(C14, "C14.hex", "C06.hex", "untrusted hex text"),
    take(C12, "C12.from_octets", "C06.point_from_octets", "untrusted point octets, exact-size input object"),
    take(C11, "C11.tls13_open_arbitrary", "C06.tls13_open_arbitrary", "untrusted TLS 1.3 protected record"),
    take(C11, "C11.tls13_open_reject", "C06.tls13_open_short", "untrusted TLS 1.3 protected record"),
]
for o in C11.OBLIGATIONS:
    if o["id"].startswith("C11.cbc_decrypt_badlen") or o["id"].startswith("C11.cbc_decrypt_sound48.K-1"):
        d = copy.deepcopy(o); d["id"] = o["id"].replace("C11.", "C06.tls_"); OBLIGATIONS.append(d)
for o in C05.OBLIGATIONS:
    if o["id"].startswith("C05.gcm.stream.t12"):
        d = copy.deepcopy(o); d["id"] = o["id"].replace("C05.", "C06."); OBLIGATIONS.append(d)
NOTE = "C06: memory safety on untrusted input (CBMC's built-in bounds/pointer/memcpy-region checks are the oracle)."
