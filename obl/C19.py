from .common import Z256_IO
KEY_RM = ["sm2_key_print", "sm2_public_key_print", "sm2_private_key_print", "sm2_private_key_info_print", "sm2_public_key_info_print",
          "sm2_private_key_info_encrypt_to_pem", "sm2_private_key_info_decrypt_from_pem", "sm2_private_key_to_pem", "sm2_private_key_from_pem",
          "sm2_public_key_info_to_pem", "sm2_public_key_info_from_pem", "sm2_private_key_info_to_pem", "sm2_private_key_info_from_pem", "sm2_public_key_digest",
          "sm2_private_key_info_encrypt_to_der", "sm2_private_key_info_decrypt_from_der", "sm2_key_generate"]
MON = {"io_stubs": False, "models": ["models/leak_monitor.c"]}
OBLIGATIONS = [
    dict({"id": "C19.sm2_private_key_import", "harness": "harness/C19/keyimport.c", "entry": "h_private_key_container",
          "units": ["sm2_key.c", "asn1.c", "ec.c", "sm2_z256.c"],
          "remove": {"sm2_key.c": KEY_RM, "sm2_z256.c": ["sm2_z256_point_mul_generator", "sm2_z256_point_to_uncompressed_octets", "sm2_z256_point_from_octets", "sm2_z256_point_equ",
                                                         "sm2_z256_rand_range"] + Z256_IO,
                     "ec.c": ["ec_point_print", "ec_named_curve_print" ]},
          "unwind": 70, "timeout": 900,
          "title": "ECPrivateKey import: no data dump on any path (incl. the mismatch branch); container accepted only if the embedded public key equals [d]G; DER round trip",
          "bounds": "all scalars, all embedded public keys; well-formed container produced by sm2_private_key_to_der",
          "stubs": ["points as affine stand-ins ([k]G := (k, ~k))", "diagnostic-channel monitor (models/leak_monitor.c)"]}, **MON),
]
NOTE = "C19: secrets on diagnostic channels."
