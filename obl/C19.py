from .common import Z256_IO
KEY_RM = ["sm2_key_print", "sm2_public_key_print", "sm2_private_key_print", "sm2_private_key_info_print", "sm2_public_key_info_print",
          "sm2_private_key_info_encrypt_to_pem", "sm2_private_key_info_decrypt_from_pem", "sm2_private_key_to_pem", "sm2_private_key_from_pem",
          "sm2_public_key_info_to_pem", "sm2_public_key_info_from_pem", "sm2_private_key_info_to_pem", "sm2_private_key_info_from_pem", "sm2_public_key_digest",
          "sm2_private_key_info_encrypt_to_der", "sm2_private_key_info_decrypt_from_der", "sm2_key_generate"]
MON = {"io_stubs": False, "models": ["models/leak_monitor.c"]}
OBLIGATIONS = [
    dict({"id": "C19.sm2_private_key_import", "harness": "harness/C19/keyimport.c", "entry": "h_private_key_container",
          "units": ["sm2_key.c", "asn1.c", "ec.c", "sm2_z256.c"],
          "remove": {"sm2_key.c": KEY_RM, "sm2_z256.c": ["sm2_z256_point_mul_generator", "sm2_z256_point_to_uncompressed_octets", "sm2_z256_point_from_octets", "sm2_z256_point_equ", "sm2_z256_point_to_bytes", "sm2_z256_point_get_xy",
                                                         "sm2_z256_rand_range"] + Z256_IO,
                     "ec.c": ["ec_point_print", "ec_named_curve_print" ]},
          "unwind": 70, "timeout": 900,
          "title": "ECPrivateKey import: no data dump on any path (incl. the mismatch branch); container accepted only if the embedded public key equals [d]G; DER round trip",
          "bounds": "all scalars, all embedded public keys; well-formed container produced by sm2_private_key_to_der",
          "stubs": ["points as affine stand-ins ([k]G := (k, ~k))", "diagnostic-channel monitor (models/leak_monitor.c)"]}, **MON),
]
OBLIGATIONS += [
    dict({"id": "C19.tls13_records_quiet", "harness": "harness/C19/records.c", "entry": "h_tls13_records_quiet", "units": ["tls13.c", "tls_trace.c"],
          "remove": {"tls_trace.c": []}, "unwind": 70, "timeout": 600,
          "title": "tls13_gcm_decrypt / tls13_gcm_encrypt: no data dump on success or on any failure path (AEAD failure, bad inner type, short input)",
          "bounds": "40-byte protected record, 20-byte payload; AEAD outcome arbitrary", "stubs": ["SM4-GCM: arbitrary outcome", "diagnostic monitor"]}, **MON),
    dict({"id": "C19.tls_cbc_records_quiet", "harness": "harness/C19/records.c", "entry": "h_tls_cbc_records_quiet", "units": ["tls.c"],
          "remove": {"tls.c": ["tls_record_recv", "tls_record_send"]}, "shims": {"tls.c": ["ctxcopy_shim.h"]}, "unwind": 260, "timeout": 600,
          "title": "tls_cbc_decrypt / tls_cbc_encrypt: no data dump on success or failure (padding / MAC / entropy failures)",
          "bounds": "80-byte protected body, 20-byte payload", "stubs": ["CBC / HMAC / entropy: arbitrary outcome", "diagnostic monitor"]}, **MON),
    dict({"id": "C19.sm2_decrypt_quiet", "harness": "harness/C19/sm2dec.c", "entry": "h_sm2_decrypt_quiet", "units": ["sm2_enc.c"],
          "remove": {"sm2_enc.c": ["sm2_ciphertext_print", "sm2_encrypt_pre_compute"]}, "unwind": 70, "timeout": 600,
          "title": "sm2_do_decrypt: no data dump on any path", "bounds": "3-byte ciphertext body, arbitrary C1/C3, arbitrary point validator outcome",
          "stubs": ["point ops / SM3: arbitrary", "diagnostic monitor"]}, **MON),
]
from . import C08
import copy
for o in C08.STREAM:
    d = copy.deepcopy(o); d["id"] = d["id"].replace("C08.stream.", "C19.tls_io_quiet."); d["defs"] = list(d.get("defs", [])) + ["-DMONITOR"]; d.update(MON)
    d["models"] = ["models/leak_monitor.c", "models/leak_monitor_tls.c"]
    d["remove"] = dict(d["remove"]); d["remove"]["tls_trace.c"] = ["tls_record_print", "tls13_record_print", "tls_encrypted_record_print", "tls_handshake_print", "tls_alert_print", "tls_application_data_print",
                                                                  "tls_pre_master_secret_print", "tls_random_print", "tls_secrets_print"]
    d["title"] = "no data dump on any path (incl. every error path) of: " + d["title"]; d["stubs"] = d["stubs"] + ["diagnostic monitor"]
    OBLIGATIONS.append(d)
NOTE = "C19: secrets on diagnostic channels."
