HASHES = {"sm3": ("H_SM3", "sm3.c", "sm3_compress_blocks"), "sha256": ("H_SHA256", "sha256.c", "sha256_compress_blocks"),
          "sha224": ("H_SHA224", "sha256.c", "sha256_compress_blocks"), "sha1": ("H_SHA1", "sha1.c", "sha1_compress_blocks"),
          "sha512": ("H_SHA512", "sha512.c", "sha512_compress_blocks"), "sha384": ("H_SHA384", "sha512.c", "sha512_compress_blocks")}
OBLIGATIONS = []
for h, (macro, unit, comp) in HASHES.items():
    bs = 128 if h in ("sha512", "sha384") else 64
    OBLIGATIONS.append({"id": "C03-a.%s.finish_length" % h, "harness": "harness/C03/chunk.c", "entry": "h_finish_length", "units": [unit],
                        "remove": {unit: [comp]}, "defs": ["-D" + macro], "unwind": 2 * bs + 4, "timeout": 600, "exact": True,
                        "title": "%s_finish: padding and bit-length field from an arbitrary context state (nblocks < 2^54, num < block)" % h,
                        "bounds": "none: every context state, i.e. every message length below 2^60 bytes",
                        "stubs": ["compression function = block recorder"]})
    lmax = 70 if bs == 64 else 140
    OBLIGATIONS.append({"id": "C03-a.%s.chunking" % h, "harness": "harness/C03/chunk.c", "entry": "h_chunking", "units": [unit],
                        "remove": {unit: [comp]}, "defs": ["-D" + macro, "-DLMAX=%d" % lmax], "unwind": lmax + 3 * bs + 8, "timeout": 1200,
                        "tier": "thorough", "backend": "cadical", "mem_gb": 24 if bs == 64 else 28,
                        "title": "%s init/update x3/finish: blocks compressed = msg || 0x80 || 0* || bitlen for every message and every 3-way split" % h,
                        "bounds": "message length 0..%d bytes, both split points arbitrary" % lmax,
                        "stubs": ["compression function = block recorder"]})
    OBLIGATIONS.append({"id": "C03-a.%s.chunking_small" % h, "harness": "harness/C03/chunk.c", "entry": "h_chunking", "units": [unit],
                        "remove": {unit: [comp]}, "defs": ["-D" + macro, "-DLMAX=20"], "unwind": 20 + 3 * bs + 8, "timeout": 600,
                        "tier": "quick" if h in ("sm3", "sha256") else "thorough", "backend": "cadical", "mem_gb": 16 if bs == 64 else 24,
                        "title": "%s init/update x3/finish: blocks compressed = msg || pad for every message <= 20 bytes and every 3-way split" % h,
                        "bounds": "message length 0..20 bytes, both split points arbitrary (block-boundary crossings: thorough tier, 0..%d bytes)" % lmax,
                        "stubs": ["compression function = block recorder"]})

def st(name, entry, title, units, defs, **kw):
    d = {"id": "C03-c." + name, "harness": "harness/C03/struct.c", "entry": entry, "units": units, "models": ["models/sm3_rec.c"],
         "defs": defs, "unwind": 210, "timeout": 600, "title": title, "cbmc": ["--max-field-sensitivity-array-size", "200"],
         "shims": {"hmac.c": ["ctxcopy_shim.h"]},
         "stubs": ["M2 SM3 stream recorder (collision-free digests)"]}
    d.update(kw)
    return d
for klen, mlen, tier in ((5, 3, "quick"), (64, 3, "quick"), (65, 2, "quick"), (70, 70, "thorough"), (33, 0, "quick")):
    OBLIGATIONS.append(st("sm3_hmac.k%d_m%d" % (klen, mlen), "h_sm3_hmac", "sm3_hmac_*: RFC 2104 streams (key <= block used directly, longer key hashed), any 2-way split of the message",
                          ["sm3_hmac.c"], ["-DKLEN=%d" % klen, "-DMLEN=%d" % mlen, "-DREC_CAP=200", "-DREC_SLOTS=6"], bounds="key %d bytes, message %d bytes" % (klen, mlen), tier=tier))
    OBLIGATIONS.append(st("generic_hmac.k%d_m%d" % (klen, mlen), "h_generic_hmac", "hmac_* with DIGEST_sm3(): same RFC 2104 streams as the direct interface",
                          ["hmac.c", "digest.c", "sm3_digest.c"], ["-DKLEN=%d" % klen, "-DMLEN=%d" % (mlen or 1), "-DREC_CAP=200", "-DREC_SLOTS=8"],
                          bounds="key %d bytes, message %d bytes" % (klen, mlen or 1), tier=tier,
                          remove={"digest.c": ["digest_from_name", "digest_name"]}))
for outlen in (1, 32, 40, 64, 70):
    OBLIGATIONS.append(st("kdf.out%d" % outlen, "h_kdf", "sm2_kdf / sm3_kdf_*: block i = H(Z || be32(i)), i from 1, last block truncated",
                          ["sm3_kdf.c", "sm2_enc.c"], ["-DZLEN=6", "-DOUTLEN=%d" % outlen, "-DREC_CAP=64", "-DREC_SLOTS=8"], bounds="Z of 6 bytes, output %d bytes" % outlen,
                          tier="quick" if outlen <= 40 else "thorough",
                          remove={"sm2_enc.c": ["sm2_encrypt_pre_compute", "sm2_do_encrypt_pre_compute", "sm2_do_encrypt", "sm2_do_encrypt_ex", "sm2_do_encrypt_fixlen", "sm2_do_decrypt",
                                                "sm2_ciphertext_to_der", "sm2_ciphertext_from_der", "sm2_ciphertext_print", "sm2_encrypt", "sm2_encrypt_fixlen", "sm2_decrypt",
                                                "sm2_encrypt_init", "sm2_encrypt_update", "sm2_encrypt_finish", "sm2_encrypt_reset", "sm2_decrypt_init", "sm2_decrypt_update", "sm2_decrypt_finish", "sm2_decrypt_reset"]}))
for outlen, count, tier in ((16, 2, "quick"), (48, 3, "quick"), (64, 2, "quick"), (70, 3, "thorough")):
    OBLIGATIONS.append({"id": "C03-c.pbkdf2.out%d_c%d" % (outlen, count), "harness": "harness/C03/pbkdf2.c", "entry": "h_pbkdf2", "units": ["sm3_pbkdf2.c"],
                        "defs": ["-DOUTLEN=%d" % outlen, "-DCOUNT=%d" % count, "-DSALTLEN=3"], "unwind": 80, "timeout": 600, "tier": tier,
                        "title": "sm3_pbkdf2 = RFC 8018 PBKDF2 over an ideal PRF: U_1 = PRF(P, S||INT(i)), U_j = PRF(P, U_{j-1}), T_i = xor, DK truncated",
                        "bounds": "dkLen %d, c = %d, salt 3 bytes" % (outlen, count), "stubs": ["sm3_hmac_* = ideal PRF with call log"]})
for generic in (0, 1):
    for sl, il, ol, tq in ((4, 3, 40, "quick"), (0, 0, 32, "quick"), (32, 10, 70, "thorough")):
        OBLIGATIONS.append({"id": "C03-c.%shkdf.s%d_i%d_l%d" % ("generic_" if generic else "sm3_", sl, il, ol), "harness": "harness/C03/hkdf.c", "entry": "h_hkdf", "units": ["hkdf.c"],
                            "defs": ["-DSALTLEN=%d" % sl, "-DINFOLEN=%d" % il, "-DOKMLEN=%d" % ol] + (["-DGENERIC"] if generic else []), "unwind": 90, "timeout": 600, "tier": tq,
                            "title": ("hkdf_extract / hkdf_expand (generic digest interface)" if generic else "sm3_hkdf_extract / sm3_hkdf_expand") + " = RFC 5869 over an ideal PRF",
                            "bounds": "salt %d, IKM 5, info %d, OKM %d bytes; all contents" % (sl, il, ol), "stubs": ["HMAC interface = ideal PRF with call log"]})
NOTE = "C03: hashes, MACs, KDFs."
