SM4_SMALL_RM = ["sm4_set_encrypt_key", "sm4_set_decrypt_key", "sm4_encrypt"]
def md(name, entry, title, units, n, **kw):
    d = {"id": "C04-m.%s.n%d" % (name, n), "harness": "harness/C04/modes.c", "entry": entry, "units": ["sm4.c"] + units,
         "unit_defs": {"sm4.c": ["-DENABLE_SMALL_FOOTPRINT=1"]}, "remove": {"sm4.c": SM4_SMALL_RM}, "models": ["models/sm4_uf.c"],
         "defs": ["-DN=%d" % n], "unwind": 60, "timeout": 900, "title": title,
         "bounds": "message of %d bytes (all contents), all keys / IVs, every 2-way chunking" % n,
         "stubs": ["M3: sm4_encrypt = ideal permutation (UF + inverse axioms); block loops of sm4.c in the ENABLE_SMALL_FOOTPRINT variant"]}
    d.update(kw)
    return d
OBLIGATIONS = []
for n in (0, 1, 15, 16, 17, 33):
    t = "quick" if n in (0, 17) else "thorough"
    for sv in range(1, 17):
        if n != 17 and sv not in (1, 3, 8, 16): continue          # all 16 segment sizes at n = 17; four representative sizes elsewhere
        if n == 33 and sv == 1: continue                          # 33 x 5 block-cipher applications per case: no verdict in reach
        for clo in range(0, n + 1, 3):
            chi = min(clo + 2, n)
            tq = "quick" if (n == 17 and sv in (3, 8, 16)) else "thorough"
            OBLIGATIONS.append(md("cfb.s%d.cut%d_%d" % (sv, clo, chi), "h_cfb", "CFB-s: one-shot = SP 800-38A reference, decrypt inverts (also in place), streaming = one-shot, writes <= dry-run size",
                                  ["sm4_cfb.c"], n, defs=["-DN=%d" % n, "-DSMIN=%d" % sv, "-DSMAX=%d" % sv, "-DCMIN=%d" % clo, "-DCMAX=%d" % chi], tier=tq,
                                  bounds="message of %d bytes, segment size %d, chunk boundary %d..%d" % (n, sv, clo, chi)))
    OBLIGATIONS.append(md("ctr", "h_ctr", "CTR: one-shot = reference, in-place inverse, streaming = one-shot, writes <= dry-run size", ["sm4_ctr.c"], n, tier=t))
    OBLIGATIONS.append(md("ofb", "h_ofb", "OFB: one-shot = reference, in-place inverse", ["sm4_ofb.c"], n, tier=t))
    OBLIGATIONS.append(md("cbc_padding", "h_cbc_padding", "CBC + PKCS#7: = reference, decrypt inverts", ["sm4_cbc.c"], n, tier=t))
for clo in (0, 2, 4):
    OBLIGATIONS.append(md("cfb.s1.cut%d_%d" % (clo, min(clo + 1, 5)), "h_cfb", "CFB-8 (s = 1): one-shot = reference, inverse, in place, streaming", ["sm4_cfb.c"], 5,
                          defs=["-DN=5", "-DSMIN=1", "-DSMAX=1", "-DCMIN=%d" % clo, "-DCMAX=%d" % min(clo + 1, 5)], bounds="message of 5 bytes, segment size 1, chunk boundary %d..%d" % (clo, min(clo + 1, 5))))
OBLIGATIONS.append(md("ctr_incr", "h_ctr_incr", "CTR / CTR32 counter increment: +1 mod 2^128 / low 32 bits only", [], 1, exact=True, bounds="none (all counters)"))
OBLIGATIONS.append(md("cbc_padding_arbitrary", "h_cbc_padding_arbitrary", "sm4_cbc_padding_decrypt on arbitrary ciphertext: accepted => padding length 1..16 and consistent length; correctly padded input accepted", ["sm4_cbc.c"], 16, bounds="arbitrary ciphertexts of 16 and 32 bytes"))
OBLIGATIONS.append({"id": "C04-m.cfb_dryrun", "harness": "harness/C04/cfbdry.c", "entry": "h_cfb_dryrun", "units": ["sm4_cfb.c"], "remove": {"sm4_cfb.c": ["sm4_cfb_encrypt", "sm4_cfb_decrypt"]},
                    "unwind": 20, "timeout": 600, "title": "sm4_cfb_encrypt_update / decrypt_update from any context state: writes the whole segments of buffered + input, never more than the null-buffer size query reports",
                    "bounds": "segment sizes 1..16, 0..s-1 bytes buffered, input of 1..70 bytes (all symbolic)", "stubs": ["one-shot sm4_cfb_encrypt / decrypt: length recorder that asserts its output range is writable"]})
NOTE = "C04: ciphers and modes."
