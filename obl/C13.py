H = "harness/C13/limb.c"
def limb(name, entry, title, **kw):
    d = {"id": "C13-a." + name, "harness": H, "entry": entry, "units": ["sm2_z256.c"], "title": title,
         "exact": True, "bounds": "none (all 256-bit operands)", "timeout": 300, "unwind": 60,
         "remove": ["sm2_z256_print", "sm2_z256_point_print", "sm2_z256_point_affine_print", "sm2_z256_from_hex",
                    "sm2_z256_equ_hex", "sm2_z256_point_from_hex", "sm2_z256_point_equ_hex",
                    "sm2_z256_point_from_hash", "sm2_z256_point_to_der", "sm2_z256_point_from_der",
                    "sm2_z256_rand_range"]}
    d.update(kw)
    return d

OBLIGATIONS = [
    limb("consts", "h_consts", "p, n, n-1, 1 equal the GB/T 32918.5 constants"),
    limb("add", "h_add", "sm2_z256_add = a+b with carry (all 2^512 pairs)"),
    limb("add_alias", "h_add_alias", "sm2_z256_add in place"),
    limb("sub", "h_sub", "sm2_z256_sub = a-b with borrow"),
    limb("cmp", "h_cmp", "cmp/equ/is_zero/is_odd agree with integer order"),
    limb("rshift", "h_rshift", "rshift = a >> n for n<64"),
    limb("copy_cond", "h_copy_cond", "copy_conditional/copy/set_zero/set_one"),
    limb("bytes", "h_bytes", "from_bytes big-endian; to_bytes inverts"),
    limb("to_bytes", "h_to_bytes", "to_bytes big-endian"),
    limb("modp_add", "h_modp_add", backend="cadical", title="modp_add = a+b mod p, reduced, for all a,b<p"),
    limb("modn_add", "h_modn_add", backend="cadical", title="modn_add = a+b mod n"),
    limb("modp_sub", "h_modp_sub", backend="cadical", title="modp_sub = a-b mod p"),
    limb("modn_sub", "h_modn_sub", backend="cadical", title="modn_sub = a-b mod n"),
    limb("modp_neg", "h_modp_neg", "modp_neg = -a mod p, reduced"),
    limb("modn_neg", "h_modn_neg", "modn_neg = -a mod n, reduced"),
    limb("modp_dbl", "h_modp_dbl", "modp_dbl = 2a mod p", backend="cadical"),
    limb("modp_tri", "h_modp_tri", "modp_tri = 3a mod p", backend="cadical"),
    limb("modp_haf", "h_modp_haf", "modp_haf = a/2 mod p"),
    limb("booth5", "h_booth", "Booth w=5 digits reconstruct k (52 windows)", defs=["-DBOOTH_W=5"]),
    limb("booth7", "h_booth", "Booth w=7 digits reconstruct k (37 windows)", defs=["-DBOOTH_W=7"]),
]

SMALLP_RM = ["sm2_z256_modp_add", "sm2_z256_modp_sub", "sm2_z256_modp_dbl", "sm2_z256_modp_tri", "sm2_z256_modp_neg", "sm2_z256_modp_haf",
             "sm2_z256_modp_mont_mul", "sm2_z256_modp_mont_sqr", "sm2_z256_modp_to_mont", "sm2_z256_modp_from_mont", "sm2_z256_modp_mont_inv"]
def pt(name, entry, title, pf, **kw):
    d = {"id": "C13-e.%s.p%d" % (name, pf), "harness": "harness/C13/points.c", "entry": entry, "units": ["sm2_z256.c"], "models": ["models/sm2_smallp.c"],
         "remove": {"sm2_z256.c": SMALLP_RM + ["sm2_z256_print", "sm2_z256_point_print", "sm2_z256_point_affine_print", "sm2_z256_from_hex", "sm2_z256_equ_hex",
                                                "sm2_z256_point_from_hex", "sm2_z256_point_equ_hex", "sm2_z256_point_from_hash", "sm2_z256_point_to_der", "sm2_z256_point_from_der", "sm2_z256_rand_range"]},
         "defs": ["-DPF=%d" % pf], "unwind": pf + 2, "timeout": 900, "title": title,
         "bounds": "field F_%d (M4'), every curve y^2 = x^3 - 3x + b (non-singular), all affine points without 2-torsion, every Jacobian representative, both infinity encodings" % pf,
         "stubs": ["mod-p layer instantiated over F_%d with Montgomery radix 2 (models/sm2_smallp.c)" % pf]}
    d.update(kw)
    return d
for pf in (13, 31):
    t = "quick" if pf == 13 else "thorough"
    OBLIGATIONS += [
        pt("point_dbl", "h_point_dbl", "sm2_z256_point_dbl = group law, also in place", pf, tier=t),
        pt("point_add_affine", "h_point_add_affine", "sm2_z256_point_add_affine = group law (incl. P = Q, P = -Q, infinity)", pf, tier=t),
        pt("get_xy", "h_get_xy", "point_get_xy / is_at_infinity: affine coordinates from every Jacobian representative", pf, tier=t),
    ]
    for z1 in (range(1, pf) if pf == 13 else (1, 30)):      # F_31: two representatives only (measured: ~900 k operand tuples per obligation, no verdict within 900 s); budget 3000 s
        tz = "quick" if (pf == 13 and z1 in (1, 2, 5, 12)) else "thorough"
        for nm, en, ti in (("point_add", "h_point_add", "sm2_z256_point_add = group law (P+Q, P=Q, P=-Q, infinity on either side)"),
                           ("point_neg_sub", "h_point_neg_sub", "point_neg, point_sub = group law"),
                           ("point_add_inplace", "h_point_add_inplace", "sm2_z256_point_add with R == A = group law")):
            OBLIGATIONS.append(pt("%s.z%d" % (nm, z1), en, ti, pf, tier=tz, defs=["-DPF=%d" % pf, "-DZ1FIX=%d" % z1], timeout=900 if pf == 13 else 3000,
                                  bounds="field F_%d, every non-singular curve y^2 = x^3 - 3x + b, all affine points without 2-torsion; first operand with Jacobian Z = %d, second operand every representative; both infinity encodings" % (pf, z1)))

DLOG_RM = ["sm2_z256_point_set_infinity", "sm2_z256_point_dbl", "sm2_z256_point_add", "sm2_z256_point_sub", "sm2_z256_point_neg", "sm2_z256_point_copy_affine",
           "sm2_z256_point_add_affine", "sm2_z256_point_sub_affine", "sm2_z256_print", "sm2_z256_point_print", "sm2_z256_point_affine_print", "sm2_z256_from_hex", "sm2_z256_equ_hex",
           "sm2_z256_point_from_hex", "sm2_z256_point_equ_hex", "sm2_z256_point_from_hash", "sm2_z256_point_to_der", "sm2_z256_point_from_der", "sm2_z256_rand_range"]
for route, nm, ti in ((0, "point_mul", "sm2_z256_point_mul"), (1, "point_mul_ex", "point_mul_pre_compute + point_mul_ex"), (2, "mul_generator", "sm2_z256_point_mul_generator (37 x 64 table)"), (3, "mul_sum", "sm2_z256_point_mul_sum")):
    OBLIGATIONS.append({"id": "C13-f.%s.q13" % nm, "harness": "harness/C13/scalarmul.c", "entry": "h_scalar_mul", "units": ["sm2_z256.c"], "models": ["models/sm2_dlog.c"],
                        "remove": {"sm2_z256.c": DLOG_RM}, "defs": ["-DDQ=13", "-DROUTE=%d" % route], "unwind": 70, "timeout": 3600, "field_sens": 64, "object_bits": 13, "mem_gb": 24,
                        "cbmc": ["--max-field-sensitivity-array-size", "64"], "tier": "thorough", "backends": ["kissat", "cadical", "minisat"],
                        "title": ti + ": result = [k]P for every 256-bit scalar (window loops, Booth digits, table look-ups over the discrete-log image of the group)",
                        "bounds": "all 256-bit scalars; group order q = 13 (discrete-log model); base point index 1..12, normalised or not",
                        "stubs": ["group = Z_13 (models/sm2_dlog.c): point ops are index arithmetic, generator table entry [i][j] = (j+1) 2^(7i)"]})
for modn, nm in ((0, "modp"), (1, "modn")):
    OBLIGATIONS.append({"id": "C13-c.%s_mont_reduce" % nm, "harness": "harness/C13/montred.c", "entry": "h_mont_reduce", "units": ["sm2_z256.c"],
                        "remove": {"sm2_z256.c": ["sm2_z256_mul", "sm2_z256_print", "sm2_z256_point_print", "sm2_z256_point_affine_print", "sm2_z256_from_hex", "sm2_z256_equ_hex",
                                                  "sm2_z256_point_from_hex", "sm2_z256_point_equ_hex", "sm2_z256_point_from_hash", "sm2_z256_point_to_der", "sm2_z256_point_from_der", "sm2_z256_rand_range"]},
                        "defs": ["-DMODN=%d" % modn], "unwind": 12, "timeout": 900, "backend": "cadical", "exact": True,
                        "title": "sm2_z256_%s_mont_mul: reduction step (512-bit add with carry, conditional subtraction by the right modulus) returns (z + t)/2^256 mod M for every consistent (z, t)" % nm,
                        "bounds": "all z < M^2 and all t = q 2^256 - z < 2^256 M (multiplier replaced by an oracle)", "stubs": ["sm2_z256_mul: oracle (arbitrary consistent products)"]})
NOTE = "C13: SM2 256-bit arithmetic layer (portable C back end)."
