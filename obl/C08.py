import copy
from . import C06, C11
OBLIGATIONS = []
for outlen, sl, ml, tq in ((12, 6, 4, "quick"), (48, 6, 4, "quick"), (32, 32, 0, "quick"), (104, 8, 8, "thorough")):
    OBLIGATIONS.append({"id": "C08.tls_prf.out%d_s%d_m%d" % (outlen, sl, ml), "harness": "harness/C08/prf.c", "entry": "h_prf", "units": ["tls.c"],
                        "remove": {"tls.c": ["tls_record_recv", "tls_record_send"]}, "shims": {"tls.c": ["ctxcopy_shim.h"]},
                        "defs": ["-DOUTLEN=%d" % outlen, "-DSEEDLEN=%d" % sl, "-DMORELEN=%d" % ml], "unwind": 90, "timeout": 600, "tier": tq,
                        "title": "tls_prf = P_hash (RFC 5246 / GB/T 38636): A(i) chain and P(i) = HMAC(secret, A(i) || label || seed || more), output truncated",
                        "bounds": "output %d bytes, seed %d + %d bytes, all contents" % (outlen, sl, ml), "stubs": ["sm3_hmac_* = ideal PRF with call log"]})
OBLIGATIONS.append({"id": "C08.cbc_length_gate", "harness": "harness/C08/lengate.c", "entry": "h_len_gate", "units": ["tls.c"],
                    "remove": {"tls.c": ["tls_record_recv", "tls_record_send"]}, "shims": {"tls.c": ["ctxcopy_shim.h"]}, "unwind": 260, "timeout": 900,
                    "cbmc": ["--max-field-sensitivity-array-size", "0", "--no-unwinding-assertions"],
                    "title": "every protected-record length produced for payloads 0..16384 passes tls_cbc_decrypt's length gate (full-size fragments are deliverable)",
                    "bounds": "all payload lengths 0..16384 (symbolic), contents irrelevant", "stubs": ["CBC / HMAC layers: no-ops that count calls"]})
for mod, oid, nid in ((C06, "C06.tls_record_recv", "C08.record_recv_order"),):
    for o in mod.OBLIGATIONS:
        if o["id"] == oid:
            d = copy.deepcopy(o); d["id"] = nid; OBLIGATIONS.append(d)
for o in C11.OBLIGATIONS:
    if o["id"].startswith("C11.cbc_roundtrip.L") or o["id"].startswith("C11.tls13_roundtrip.L"):
        if o.get("tier", "quick") == "quick" and o["id"].endswith(("L0_1", "L16_17", "L10_11")):
            d = copy.deepcopy(o); d["id"] = o["id"].replace("C11.", "C08.record_"); OBLIGATIONS.append(d)
for nm, en, ti in (("tls13_expand_label", "h_expand_label", "tls13_hkdf_expand_label builds the RFC 8446 HkdfLabel (length, \"tls13 \" + label, context) and expands under the secret"),
                   ("tls13_derive_secret", "h_derive_secret", "tls13_derive_secret = Expand-Label(secret, label, Hash(transcript), Hash.length)")):
    OBLIGATIONS.append({"id": "C08." + nm, "harness": "harness/C08/tls13label.c", "entry": en, "units": ["tls13.c", "tls.c"],
                        "remove": {"tls.c": ["tls_record_recv", "tls_record_send"]}, "unwind": 90, "timeout": 600,
                        "title": ti, "bounds": "label of 12 / 7 characters, context 5 / 32 bytes, L in {12, 16, 32}", "stubs": ["hkdf_expand: recorder", "digest_finish: arbitrary transcript hash"]})
STREAM_RM = ["tls_record_recv", "tls_record_send", "tls_record_encrypt", "tls_record_decrypt"]
def stream(name, entry, title, bounds, **kw):
    d = {"id": "C08.stream." + name, "harness": "harness/C08/stream.c", "entry": entry, "units": ["tls.c", "tls_trace.c"], "remove": {"tls.c": STREAM_RM},
         "shims": {"tls.c": ["@scaled_tls"], "tls_trace.c": ["@scaled_tls"], "harness/C08/stream.c": ["@scaled_tls"]}, "unwind": 45, "timeout": 600, "title": title,
         "bounds": "size constants scaled in a regenerated copy of gmssl/tls.h (plaintext 16 bytes, record 37, TLS_CONNECT buffers accordingly, M6); " + bounds, "stubs": ["record layer (tls_record_recv / decrypt / encrypt / send): arbitrary outcome, logs its arguments"]}
    d.update(kw)
    return d
STREAM = [
    stream("recv_step", "h_recv_step", "tls_recv from any buffered state: delivers min(outlen, remaining) next bytes in order; reads one record only when nothing is buffered; only application data is delivered; right read keys",
           "every buffered position, read buffers of 1..8 bytes, every record type / socket / protection outcome"),
    stream("send", "h_send", "tls_send: one application_data record with the first min(inlen, max) caller bytes under this side's write keys and sequence number, which advances by one; refused while received data is buffered",
           "writes of 1..20 bytes (max plaintext scaled to 16), all contents, every protection / socket outcome"),
    stream("shutdown", "h_shutdown", "tls_shutdown protects and sends a close_notify alert first", "every outcome of the record layer"),
]
OBLIGATIONS += STREAM
NOTE = ("C08 is claimed for the per-endpoint building blocks only: PRF structure, record protection round trip (from C11), full-size fragment acceptance, "
        "in-order reassembly of short socket reads, and the inductive step of tls_send / tls_recv (stream.c: any write / read chunking). NOT decided: the handshake drivers (not encodable, see DESIGN.md), two live endpoints, interleavings.")
