import copy
CMS_RM_PRINT = []
OBLIGATIONS = [
    {"id": "C16.signed_data_verify", "harness": "harness/C16/cms.c", "entry": "h_signed_verify", "units": ["cms.c"], "defs": ["-DSIGNED"],
     "remove": {"cms.c": ["cms_signed_data_from_der", "cms_content_info_header_to_der", "cms_signer_info_verify_from_der"]},
     "unwind": 8, "timeout": 600,
     "title": "cms_signed_data_verify_from_der returns 1 only with >= 1 SignerInfo, all of them verified over H(content-info header || content), v1, SM3",
     "bounds": "0..3 SignerInfos with arbitrary verdicts; abstract DER parts", "stubs": ["cms_signed_data_from_der, cms_signer_info_verify_from_der, cms_content_info_header_to_der: abstract", "sm3_*: call probe"]},
    {"id": "C16.recipient_match", "harness": "harness/C16/cms.c", "entry": "h_rcpt_match", "units": ["cms.c"], "defs": ["-DRCPT"],
     "remove": {"cms.c": ["cms_recipient_info_from_der"]}, "unwind": 8, "timeout": 600,
     "title": "cms_recipient_info_decrypt_from_der decrypts only the RecipientInfo whose issuer and serial number equal the offered ones exactly",
     "bounds": "issuers and serials of 1..3 bytes, all contents", "stubs": ["cms_recipient_info_from_der: abstract fields", "sm2_decrypt: recorder"]},
]
NOTE = "C16: CMS."
