import copy
CMS_RM_PRINT = []
OBLIGATIONS = [
    {"id": "C16.signed_data_verify", "harness": "harness/C16/cms.c", "entry": "h_signed_verify", "units": ["cms.c"], "defs": ["-DSIGNED"],
     "remove": {"cms.c": ["cms_signed_data_from_der", "cms_content_info_header_to_der", "cms_signer_info_verify_from_der"]},
     "unwind": 8, "timeout": 600,
     "title": "cms_signed_data_verify_from_der returns 1 only with >= 1 SignerInfo, all of them verified over H(content-info header || content), v1, SM3",
     "bounds": "0..3 SignerInfos with arbitrary verdicts; abstract DER parts", "stubs": ["cms_signed_data_from_der, cms_signer_info_verify_from_der, cms_content_info_header_to_der: abstract", "sm3_*: call probe"]},
    {"id": "C16.recipient_match", "harness": "harness/C16/cms.c", "entry": "h_rcpt_match", "units": ["cms.c"], "defs": ["-DRCPT"],
     "remove": {"cms.c": ["cms_recipient_info_from_der"]}, "unwind": 8, "timeout": 600,
     "title": "cms_recipient_info_decrypt_from_der decrypts only the RecipientInfo whose issuer and serial number equal the offered ones exactly",
     "bounds": "issuers and serials of 1..3 bytes, all contents", "stubs": ["cms_recipient_info_from_der: abstract fields", "sm2_decrypt: recorder"]},
    {"id": "C16.signed_data_sign", "harness": "harness/C16/cms.c", "entry": "h_sign_side", "units": ["cms.c", "asn1.c"], "defs": ["-DSIGNSIDE"],
     "remove": {"cms.c": ["cms_signer_infos_add_signer_info", "cms_implicit_signers_certs_to_der", "cms_digest_algors_to_der"]}, "unwind": 70, "timeout": 900,
     "title": "cms_signed_data_sign_to_der hashes exactly the DER of the ContentInfo it emits (every content type) and makes SignerInfo i with signer i's key and certificate",
     "bounds": "content of 5 bytes (all contents), 6 content types, 2 signers", "stubs": ["sm3_*: byte recorder", "cms_signer_infos_add_signer_info: call recorder", "x509_cert_get_issuer_and_serial_number, certificate / digest-algorithm encoders: abstract"]},
]
NOTE = "C16: CMS."
