from .common import SMALL_REMOVE, Z256_IO
ENC_OTHER = ["sm2_encrypt_pre_compute", "sm2_do_encrypt_fixlen", "sm2_ciphertext_to_der", "sm2_ciphertext_from_der", "sm2_ciphertext_print",
             "sm2_encrypt", "sm2_encrypt_fixlen", "sm2_decrypt", "sm2_encrypt_init", "sm2_encrypt_update", "sm2_encrypt_finish", "sm2_encrypt_reset",
             "sm2_decrypt_init", "sm2_decrypt_update", "sm2_decrypt_finish", "sm2_decrypt_reset"]
def enc(name, entry, ml, title, q=13, **kw):
    d = {"id": "C02-a.%s.m%d.q%d" % (name, ml, q), "harness": "harness/C02/enc.c", "entry": entry,
         "units": ["sm2_enc.c", "sm2_z256.c"], "models": ["models/sm2_small.c", "models/sm2_small_codec.c", "models/sm3_rec.c"],
         "remove": {"sm2_z256.c": SMALL_REMOVE + Z256_IO + ["sm2_z256_point_from_bytes"], "sm2_enc.c": ENC_OTHER},
         "defs": ["-DSMALL_Q=%d" % q, "-DML=%d" % ml, "-DREC_CAP=128", "-DREC_SLOTS=8"], "unwind": 130, "timeout": 900, "title": title,
         "cbmc": ["--no-unwinding-assertions", "--max-field-sensitivity-array-size", "130"], "unwindset": ["sm2_do_encrypt.0:2", "sm2_do_encrypt.1:2"],
         "bounds": "group order %d (M4), message %d bytes (all contents), all keys, nonces, coordinate tables; nonce retry paths cut after the first draw" % (q, ml),
         "stubs": ["M4 small-field group model incl. affine import", "M2 SM3 recorder (real sm2_kdf on top)"]}
    d.update(kw)
    return d
OBLIGATIONS = []
for ml, t in ((1, "quick"), (2, "quick"), (3, "thorough"), (33, "thorough")):
    OBLIGATIONS.append(enc("encrypt_decrypt", "h_encrypt_decrypt", ml, "sm2_do_encrypt: ciphertext = GB/T 32918.4 value for the nonce drawn; sm2_do_decrypt inverts", tier="thorough", timeout=3000,
                           defs=["-DSMALL_Q=13", "-DML=%d" % ml, "-DREC_CAP=128", "-DREC_SLOTS=8", "-DWHICH=1"]))
    OBLIGATIONS.append(enc("encrypt_ex_decrypt", "h_encrypt_decrypt", ml, "sm2_do_encrypt_ex (pre-computed nonce): ciphertext = GB/T 32918.4 value; sm2_do_decrypt inverts; all-zero t reported", tier="thorough", timeout=3000,
                           defs=["-DSMALL_Q=13", "-DML=%d" % ml, "-DREC_CAP=128", "-DREC_SLOTS=8", "-DWHICH=0"]))
    OBLIGATIONS.append(enc("decrypt_sound", "h_decrypt_sound", ml, "sm2_do_decrypt accepts => C1 finite curve point, t != 0, M = C2 xor KDF([d]C1), all 32 bytes of C3 = H(x2||M||y2)", tier=t))
for cl in (0, 1, 3, 40):
    OBLIGATIONS.append({"id": "C02-b.ciphertext_der.c%d" % cl, "harness": "harness/C02/der.c", "entry": "h_ciphertext_roundtrip", "units": ["sm2_enc.c", "asn1.c"],
                        "remove": {"sm2_enc.c": ["sm2_encrypt_pre_compute", "sm2_do_encrypt", "sm2_do_encrypt_ex", "sm2_do_encrypt_fixlen", "sm2_do_decrypt", "sm2_kdf",
                                                 "sm2_encrypt", "sm2_encrypt_fixlen", "sm2_decrypt", "sm2_encrypt_init", "sm2_encrypt_update", "sm2_encrypt_finish",
                                                 "sm2_encrypt_reset", "sm2_decrypt_init", "sm2_decrypt_update", "sm2_decrypt_finish", "sm2_decrypt_reset"]},
                        "defs": ["-DCL=%d" % max(cl, 1), "-DZMAX=%d" % (1 if cl == 0 else 2)], "cbmc": ["--max-field-sensitivity-array-size", "300"], "unwind": 45, "timeout": 900, "tier": "quick" if cl == 0 else "thorough", "mem_gb": 24, "object_bits": 12,
                        "title": "SM2Cipher DER: from_der(to_der(C)) = C for coordinates with 0..2 leading zero bytes, dry run = written",
                        "bounds": "C2 of %d bytes; x, y with exactly 0..2 leading zero bytes, first significant byte 0x5a or 0x85, other bytes arbitrary (case split)" % cl})
for nm, entry, ti, df in (("ecdh_agree", "h_ecdh_agree", "sm2_ecdh: both parties obtain the coordinates of [dA dB]G", []),
                      ("ecdh_share_checked.prefix04", "h_ecdh_share_checked", "sm2_ecdh uses a peer share only if it is the 65-byte uncompressed encoding of a finite curve point; output = [d]P", ["-DPREFIX=4", "-DWITNESS_ACCEPT"]),
                      ("ecdh_share_checked.prefix00", "h_ecdh_share_checked", "sm2_ecdh refuses the encoding of the point at infinity", ["-DPREFIX=0"]),
                      ("ecdh_share_checked.prefix06", "h_ecdh_share_checked", "sm2_ecdh refuses an unknown prefix", ["-DPREFIX=6"])):
    OBLIGATIONS.append({"id": "C02-c.%s.q13" % nm, "harness": "harness/C02/ecdh.c", "entry": entry, "units": ["sm2_exch.c", "sm2_z256.c"],
                        "models": ["models/sm2_small.c", "models/sm2_small_codec.c"], "remove": {"sm2_z256.c": SMALL_REMOVE + Z256_IO + ["sm2_z256_point_from_bytes"]},
                        "defs": ["-DSMALL_Q=13"] + df, "unwind": 70, "timeout": 600, "title": ti,
                        "bounds": "group order 13 (M4), all private keys and coordinate tables; uncompressed shares (compressed ones need the field square root)",
                        "stubs": ["M4 small-field group model incl. affine import"]})
NOTE = "C02: SM2 encryption and ECDH."
