/* C13-e: Jacobian point formulas of src/sm2_z256.c (point_dbl, point_add, point_add_affine, point_sub, point_neg,
 * point_get_xy, is_at_infinity) over a small prime field (M4'), against the affine chord-tangent law.
 * All Jacobian representatives (every Z != 0), P = Q, P = -Q, infinity on either side (both encodings). */
#include <stdio.h>
#include <string.h>
#include <gmssl/sm2_z256.h>
#include "verif.h"
#ifndef PF
#define PF 13
#endif
#include "smallf.h"
extern const uint64_t *SM2_Z256_MODP_MONT_ONE;
static const uint64_t MONT_ONE[4] = { 2 % PF, 0, 0, 0 };
typedef sf sv;                               /* table-driven F_PF arithmetic (include/smallf.h) */
typedef struct { int inf; sv x, y; } AFF;
#define mul sf_mul
#define add sf_add
#define sub sf_sub
#define inv sf_inv
static sv dbl(sv a) { return sf_add(a, a); }
static sv tri(sv a) { return sf_add(sf_add(a, a), a); }
static sv g_b;                               /* curve: y^2 = x^3 - 3x + b */
static int on_curve(sv x, sv y) { return mul(y, y) == add(sub(mul(mul(x, x), x), tri(x)), g_b); }
static AFF any_point(void)
{
	AFF P; P.inf = nondet_bool(); P.x = nondet_u8(); P.y = nondet_u8();
	ASSUME(P.x < PF && P.y < PF);
	if (!P.inf) { ASSUME(on_curve(P.x, P.y)); ASSUME(P.y != 0); }   /* no points of order 2: the SM2 group has prime order */
	return P;
}
/* Jacobian, Montgomery form, arbitrary Z != 0; infinity as (.,.,0) with arbitrary X, Y (covers memset-0 and (1,1,0)) */
#ifndef Z1FIX
#define Z1FIX 0     /* 0 = arbitrary representative of the first operand; k = representative with Z = k (split across obligations) */
#endif
static int g_njac;
static void to_jac(SM2_Z256_POINT *J, AFF P)
{
	memset(J, 0, sizeof(*J));
	sv z = nondet_u8(); ASSUME(z >= 1 && z < PF);
	if (g_njac++ == 0 && Z1FIX) z = Z1FIX;
	if (P.inf) { sv a = nondet_u8(), c = nondet_u8(); ASSUME(a < PF && c < PF); J->X[0] = a; J->Y[0] = c; J->Z[0] = 0; return; }
	J->X[0] = dbl(mul(P.x, mul(z, z)));
	J->Y[0] = dbl(mul(P.y, mul(mul(z, z), z)));
	J->Z[0] = dbl(z);
}
static AFF from_jac(const SM2_Z256_POINT *J)
{
	AFF P;
	CHECK(J->X[1] == 0 && J->X[2] == 0 && J->X[3] == 0 && J->Y[1] == 0 && J->Z[1] == 0 && J->X[0] < PF && J->Y[0] < PF && J->Z[0] < PF, "result coordinates reduced");
	sv Z = sf_haf((sv)J->Z[0]);
	if (Z == 0) { P.inf = 1; P.x = P.y = 0; return P; }
	sv zi = inv(Z), X = sf_haf((sv)J->X[0]), Y = sf_haf((sv)J->Y[0]);
	P.inf = 0; P.x = mul(X, mul(zi, zi)); P.y = mul(Y, mul(mul(zi, zi), zi));
	return P;
}
static AFF ref_add(AFF P, AFF Q)
{
	AFF R; R.inf = 0; R.x = R.y = 0;
	if (P.inf) return Q;
	if (Q.inf) return P;
	sv lam;
	if (P.x == Q.x) {
		if (P.y != Q.y) { R.inf = 1; return R; }
		lam = mul(sub(tri(mul(P.x, P.x)), 3 % PF), inv(dbl(P.y)));     /* (3x^2 - 3) / 2y */
	} else lam = mul(sub(Q.y, P.y), inv(sub(Q.x, P.x)));
	R.x = sub(sub(mul(lam, lam), P.x), Q.x);
	R.y = sub(mul(lam, sub(P.x, R.x)), P.y);
	return R;
}
static void same(AFF A, AFF B, const char *what)
{
	CHECK(A.inf == B.inf, "point at infinity exactly when the group law says so");
	if (!A.inf) CHECK(A.x == B.x && A.y == B.y, "affine result equals the chord-tangent law");
}
static void setup(void)
{
	SM2_Z256_MODP_MONT_ONE = MONT_ONE;
	g_b = nondet_u8(); ASSUME(g_b < PF);
	ASSUME(sf_sub(sf_mul(27 % PF, sf_mul(g_b, g_b)), 108 % PF) != 0);   /* 4a^3 + 27b^2 = 27 b^2 - 108 != 0 with a = -3: non-singular */
}
void h_point_add(void)
{
	setup();
	AFF P = any_point(), Q = any_point();
	SM2_Z256_POINT JP, JQ, JR; to_jac(&JP, P); to_jac(&JQ, Q);
	sm2_z256_point_add(&JR, &JP, &JQ);
	same(from_jac(&JR), ref_add(P, Q), "add");
	V_REACH();
}
void h_point_dbl(void)
{
	setup();
	AFF P = any_point(); ASSUME(!P.inf);
	SM2_Z256_POINT JP, JR; to_jac(&JP, P);
	sm2_z256_point_dbl(&JR, &JP); same(from_jac(&JR), ref_add(P, P), "dbl");
	JR = JP; sm2_z256_point_dbl(&JR, &JR); same(from_jac(&JR), ref_add(P, P), "dbl in place");
	V_REACH();
}
void h_point_neg_sub(void)
{
	setup();
	AFF P = any_point(), Q = any_point();
	SM2_Z256_POINT JP, JQ, JR; to_jac(&JP, P); to_jac(&JQ, Q);
	AFF N = Q; if (!N.inf) N.y = sub(0, N.y);
	sm2_z256_point_neg(&JR, &JQ); same(from_jac(&JR), N, "neg");
	sm2_z256_point_sub(&JR, &JP, &JQ); same(from_jac(&JR), ref_add(P, N), "sub");
	V_REACH();
}
void h_point_add_inplace(void)
{
	setup();
	AFF P = any_point(), Q = any_point();
	SM2_Z256_POINT JP, JQ, JR; to_jac(&JP, P); to_jac(&JQ, Q);
	JR = JP; sm2_z256_point_add(&JR, &JR, &JQ); same(from_jac(&JR), ref_add(P, Q), "add in place (R == A, as used by the scalar multiplication loops)");
	V_REACH();
}
void h_point_add_affine(void)
{
	setup();
	AFF P = any_point(), Q = any_point(); ASSUME(!Q.inf);
	SM2_Z256_POINT JP, JR; to_jac(&JP, P);
	SM2_Z256_AFFINE_POINT A; memset(&A, 0, sizeof(A)); A.x[0] = dbl(Q.x); A.y[0] = dbl(Q.y);
	sm2_z256_point_add_affine(&JR, &JP, &A);
	same(from_jac(&JR), ref_add(P, Q), "add_affine");
	V_REACH();
}
void h_get_xy(void)
{
	setup();
	AFF P = any_point();
	SM2_Z256_POINT JP; to_jac(&JP, P);
	uint64_t x[4], y[4];
	/* the library's own infinity test additionally demands X^3 == Y^2 for Z == 0; build such representatives */
	if (P.inf) { sv k = nondet_u8(); ASSUME(k < PF); JP.X[0] = dbl(mul(k, k)); JP.Y[0] = dbl(mul(mul(k, k), k)); }
	int ret = sm2_z256_point_get_xy(&JP, x, y);
	CHECK((ret == 1) == !P.inf, "get_xy reports infinity exactly for Z = 0");
	if (ret == 1) CHECK(x[0] == (uint64_t)P.x && y[0] == (uint64_t)P.y && x[1] == 0 && y[1] == 0, "affine coordinates recovered from every Jacobian representative");
	CHECK(sm2_z256_point_is_at_infinity(&JP) == P.inf, "is_at_infinity");
	V_REACH();
}
