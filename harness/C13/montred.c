/* C13-c (reduction step only): sm2_z256_modp_mont_mul / sm2_z256_modn_mont_mul with the 256x256 multiplier replaced by an
 * oracle.  Montgomery's algorithm computes z = a*b, m = (z mod 2^256) * m' mod 2^256, t = m * M and returns (z + t) / 2^256
 * reduced mod M.  The oracle hands out an arbitrary z < M^2 and an arbitrary t that is consistent with SOME m < 2^256:
 * (z + t) = q * 2^256 and t < 2^256 * M.  What is decided: for every such (z, t) the function returns q mod M, fully
 * reduced (carry out of the 512-bit addition, conditional subtraction, right modulus).  Not decided: that the multiplier
 * produces the right z, m, t (needs the 256-bit multiplier, no verdict in reach). */
#include <stdio.h>
#include <string.h>
#include <gmssl/sm2_z256.h>
#include "verif.h"
typedef unsigned __CPROVER_bitvector[520] WW;
static WW val4(const uint64_t a[4]) { return (WW)a[0] | ((WW)a[1] << 64) | ((WW)a[2] << 128) | ((WW)a[3] << 192); }
static WW val8(const uint64_t a[8]) { WW v = 0; for (int i = 7; i >= 0; i--) v = (v << 64) | a[i]; return v; }
static void put8(uint64_t r[8], WW v) { for (int i = 0; i < 8; i++) { r[i] = (uint64_t)v; v >>= 64; } }
static int g_calls; static WW g_z, g_t;
void sm2_z256_mul(sm2_z512_t r, const sm2_z256_t a, const sm2_z256_t b)
{
	g_calls++;
	if (g_calls == 1) put8(r, g_z);                 /* z = a * b */
	else if (g_calls == 2) { for (int i = 0; i < 8; i++) r[i] = nondet_u64(); }   /* m (only its low half is used) */
	else put8(r, g_t);                              /* t = m * M */
}
#ifndef MODN
#define MODN 0
#endif
void h_mont_reduce(void)
{
	const uint64_t *Mp = MODN ? sm2_z256_order() : sm2_z256_prime();
	WW M = val4(Mp);
	uint64_t zz[8], qq[4];
	for (int i = 0; i < 8; i++) zz[i] = nondet_u64();
	for (int i = 0; i < 4; i++) qq[i] = nondet_u64();
	uint64_t qhi = nondet_u64(); ASSUME(qhi <= 1);
	g_z = val8(zz);
	WW q = val4(qq) | ((WW)qhi << 256);
	ASSUME(g_z < M * M);                            /* operands were reduced: a, b < M */
	ASSUME((q << 256) >= g_z);
	g_t = (q << 256) - g_z;                         /* z + t = q * 2^256 */
	ASSUME(g_t < (M << 256));                       /* t = m * M with m < 2^256 */
	uint64_t a[4] = {0}, b[4] = {0}, r[4];
	if (MODN) sm2_z256_modn_mont_mul(r, a, b); else sm2_z256_modp_mont_mul(r, a, b);
	CHECK(g_calls == 3, "three multiplications (z, m, t)");
	WW want = q >= M ? q - M : q;
	CHECK(q < 2 * M, "(z + t) / 2^256 < 2M (so one conditional subtraction suffices)");
	CHECK(val4(r) == want && val4(r) < M, "result = (z + t) / 2^256 mod M, fully reduced");
	V_REACH();
}
