/* C13-f: every scalar-multiplication route returns [k]P for every 256-bit k (group = discrete-log image Z_q) */
#include <stdio.h>
#include <string.h>
#include <gmssl/sm2_z256.h>
#include "verif.h"
#ifndef DQ
#define DQ 13
#endif
void dlog_init_table(void); void dlog_set(SM2_Z256_POINT *P, uint64_t idx, int normalised); uint64_t dlog_idx(const SM2_Z256_POINT *P);
/* k mod q from the limbs: k = sum k_i 2^(64 i) */
static uint64_t kmodq(const uint64_t k[4])
{
	uint64_t t64 = ((((uint64_t)1 << 63) % DQ) * 2) % DQ;          /* 2^64 mod q */
	uint64_t r = 0;
	for (int i = 3; i >= 0; i--) r = (r * t64 + k[i] % DQ) % DQ;
	return r;
}
#ifndef ROUTE
#define ROUTE 0
#endif
void h_scalar_mul(void)
{
	dlog_init_table();
	uint64_t k[4] = { nondet_u64(), nondet_u64(), nondet_u64(), nondet_u64() };
	uint64_t a = nondet_u64(); ASSUME(a >= 1 && a < DQ);
	int norm = nondet_bool();
	SM2_Z256_POINT P, R; dlog_set(&P, a, norm);
	uint64_t want;
#if ROUTE == 0
	sm2_z256_point_mul(&R, k, &P); want = (kmodq(k) * a) % DQ;
#elif ROUTE == 1
	SM2_Z256_POINT T[16]; sm2_z256_point_mul_pre_compute(&P, T); sm2_z256_point_mul_ex(&R, k, T); want = (kmodq(k) * a) % DQ;
#elif ROUTE == 2
	sm2_z256_point_mul_generator(&R, k); want = kmodq(k);
#else
	uint64_t s[4] = { nondet_u64(), nondet_u64(), nondet_u64(), nondet_u64() };
	sm2_z256_point_mul_sum(&R, k, &P, s); want = (kmodq(k) * a + kmodq(s)) % DQ;
#endif
	CHECK(dlog_idx(&R) == want, "result = [k]P (resp. [k]G, [t]P + [s]G) for every 256-bit scalar");
	V_REACH();
}
