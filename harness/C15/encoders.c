/* C15: two composite encoders, structure only (their element encoders are abstract writers that log what they are asked to write).
 *  VALIDITY : x509_validity_to_der - dry-run length = written length, SEQUENCE length = both time encodings, notBefore then notAfter, each as UTCTime up to
 *             2049-12-31 23:59:59 and GeneralizedTime after (RFC 5280 4.1.2.5); every combination incl. windows across the switch.
 *  CRLENTRY : x509_crl_entry_exts_to_der - every present element (reason 0..10, invalidity date, certificate issuer) is emitted, absent ones are not, nothing
 *             is emitted exactly when all three are absent, dry-run length = written length. */
#include <stdio.h>
#include <string.h>
#include <time.h>
#include <gmssl/x509.h>
#include <gmssl/x509_crl.h>
#include <gmssl/x509_ext.h>
#include <gmssl/asn1.h>
#include "verif.h"
#if defined(VALIDITY)
static int w_n; static time_t w_t[4]; static int w_gen[4]; static int w_real[4];
int asn1_utc_time_to_der_ex(int tag, time_t tv, uint8_t **out, size_t *outlen) { if (w_n < 4) { w_t[w_n] = tv; w_gen[w_n] = 0; w_real[w_n] = out && *out; } w_n++; if (out && *out) *out += 15; *outlen += 15; return 1; }
int asn1_generalized_time_to_der_ex(int tag, time_t tv, uint8_t **out, size_t *outlen) { if (w_n < 4) { w_t[w_n] = tv; w_gen[w_n] = 1; w_real[w_n] = out && *out; } w_n++; if (out && *out) *out += 17; *outlen += 17; return 1; }
void h_validity_to_der(void)
{
	time_t nb = (time_t)nondet_u64(), na = (time_t)nondet_u64();
	ASSUME(nb >= 0 && na >= 0 && nb < (1LL << 38) && na < (1LL << 38));
	uint8_t buf[64]; uint8_t *p = buf; size_t len = 0, dry = 0;
	int r0 = x509_validity_to_der(nb, na, NULL, &dry);
	w_n = 0;
	int r = x509_validity_to_der(nb, na, &p, &len);
	CHECK(r0 == r, "dry run and real run agree on success");
	if (r == 1) {
		V_COVER("validity encoded");
		CHECK(len == dry && p == buf + len, "dry-run length = written length");
		size_t body = (w_gen[2] ? 17 : 15) + (w_gen[3] ? 17 : 15);
		CHECK(w_n == 4 && w_t[2] == nb && w_t[3] == na && w_real[2] && w_real[3], "notBefore then notAfter are written");
		CHECK(len == 2 + body && buf[0] == 0x30 && buf[1] == body, "SEQUENCE length = the two time encodings");
		CHECK(w_gen[2] == (nb > X509_MAX_UTC_TIME) && w_gen[3] == (na > X509_MAX_UTC_TIME), "UTCTime through 2049, GeneralizedTime from 2050");
		if (w_gen[2] != w_gen[3]) V_COVER("window across the UTCTime / GeneralizedTime switch");
	}
	V_REACH();
}
#elif defined(CRLENTRY)
static int e_reason_calls, e_date_calls, e_iss_calls; static int e_reason_seen; static time_t e_date_seen; static size_t e_iss_len_seen;
int x509_crl_reason_ext_to_der(int critical, int reason, uint8_t **out, size_t *outlen) { if (reason == -1) return 0; if (out && *out) { e_reason_calls++; e_reason_seen = reason; *out += 10; } *outlen += 10; return 1; }
int x509_invalidity_date_ext_to_der(int critical, time_t date, uint8_t **out, size_t *outlen) { if (date == -1) return 0; if (out && *out) { e_date_calls++; e_date_seen = date; *out += 20; } *outlen += 20; return 1; }
int x509_cert_issuer_ext_to_der(int critical, const uint8_t *d, size_t dlen, uint8_t **out, size_t *outlen) { if (dlen == 0) return 0; if (out && *out) { e_iss_calls++; e_iss_len_seen = dlen; *out += 30; } *outlen += 30; return 1; }
void h_crl_entry_exts(void)
{
	int reason = nondet_int(); ASSUME(reason >= -1 && reason <= 10);
	time_t date = nondet_bool() ? (time_t)-1 : (time_t)1700000000;
	uint8_t iss[4] = {0x30, 2, 5, 0}; size_t isslen = nondet_bool() ? 0 : 4;
	uint8_t buf[96]; uint8_t *p = buf; size_t len = 0, dry = 0;
	int r0 = x509_crl_entry_exts_to_der(reason, date, iss, isslen, NULL, &dry);
	int r = x509_crl_entry_exts_to_der(reason, date, iss, isslen, &p, &len);
	int none = reason == -1 && date == (time_t)-1 && isslen == 0;
	CHECK(r0 == r, "dry run and real run agree");
	CHECK((r == 0) == none && (none ? len == 0 : r == 1), "nothing is emitted exactly when reason, invalidity date and certificate issuer are all absent");
	if (r == 1) {
		V_COVER("entry extensions encoded");
		CHECK(len == dry && p == buf + len, "dry-run length = written length");
		CHECK(e_reason_calls == (reason != -1) && (reason == -1 || e_reason_seen == reason), "a reason code (0 = unspecified included) is emitted exactly when present");
		CHECK(e_date_calls == (date != (time_t)-1) && e_iss_calls == (isslen != 0), "invalidity date / certificate issuer emitted exactly when present");
		size_t body = (reason != -1 ? 10 : 0) + (date != (time_t)-1 ? 20 : 0) + (isslen ? 30 : 0);
		CHECK(len == 2 + body && buf[0] == 0x30 && buf[1] == body, "SEQUENCE length = the elements written");
	}
	V_REACH();
}
#endif
