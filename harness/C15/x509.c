/* C15: CRL lookup, signed-structure verification, extension encoder */
#include <stdio.h>
#include <string.h>
#include <time.h>
#include <gmssl/x509.h>
#include <gmssl/x509_crl.h>
#include <gmssl/x509_ext.h>
#include <gmssl/oid.h>
#include "verif.h"

#if defined(CRL)
/* ---- revoked-certificate lookup: abstract list (entries = arbitrary serials), real lookup loop ---- */
#define NE 3
static uint8_t e_sn[NE][3]; static size_t e_len[NE];
int x509_revoked_cert_from_der(const uint8_t **serial, size_t *serial_len, time_t *revoke_date,
	const uint8_t **crl_entry_exts, size_t *crl_entry_exts_len, const uint8_t **in, size_t *inlen)
{
	if (*inlen == 0) return 0;
	int i = (*in)[0]; __CPROVER_assert(i < NE, "entry idx");
	*serial = e_sn[i]; *serial_len = e_len[i]; *revoke_date = 1000 + i; *crl_entry_exts = NULL; *crl_entry_exts_len = 0;
	(*in)++; (*inlen)--; return 1;
}
void h_crl_lookup(void)
{
	uint8_t list[NE] = {0, 1, 2}; size_t n = nondet_size(); ASSUME(n <= NE);
	for (int i = 0; i < NE; i++) { e_len[i] = nondet_size(); ASSUME(e_len[i] >= 1 && e_len[i] <= 3); for (int j = 0; j < 3; j++) e_sn[i][j] = nondet_u8(); }
	uint8_t q[3]; size_t ql = nondet_size(); ASSUME(ql >= 1 && ql <= 3); for (int j = 0; j < 3; j++) q[j] = nondet_u8();
	time_t date; const uint8_t *exts; size_t extslen;
	int ret = x509_revoked_certs_find_revoked_cert_by_serial_number(list, n, q, ql, &date, &exts, &extslen);
	int listed = 0;
	for (size_t i = 0; i < NE; i++) if (i < n && e_len[i] == ql) { int same = 1; for (size_t j = 0; j < 3; j++) if (j < ql && e_sn[i][j] != q[j]) same = 0; if (same) listed = 1; }
	CHECK((ret == 1) == listed && (ret == 0) == !listed, "reported revoked exactly when the CRL lists this serial number (same length, same bytes)");
	V_REACH();
}
#elif defined(SIGNED)
/* ---- x509_signed_verify: what is hashed, which algorithm, which signature bytes ---- */
static const uint8_t *v_data; static size_t v_datalen; static const uint8_t *v_sig; static size_t v_siglen; static const SM2_KEY *v_key; static const char *v_id; static size_t v_idlen; static int v_verdict;
int sm2_verify_init(SM2_VERIFY_CTX *ctx, const SM2_KEY *key, const char *id, size_t idlen) { v_key = key; v_id = id; v_idlen = idlen; return 1; }
int sm2_verify_update(SM2_VERIFY_CTX *ctx, const uint8_t *d, size_t n) { __CPROVER_assert(v_data == NULL, "single update"); v_data = d; v_datalen = n; return 1; }
int sm2_verify_finish(SM2_VERIFY_CTX *ctx, const uint8_t *sig, size_t siglen) { v_sig = sig; v_siglen = siglen; return v_verdict; }
static int g_alg; 
int x509_signature_algor_from_der(int *oid, const uint8_t **in, size_t *inlen)
{	/* abstract AlgorithmIdentifier: one byte 0xA1 followed by a code byte */
	if (*inlen < 2 || (*in)[0] != 0xA1) return -1;
	/* code 1 = sm2sign-with-sm3; every other code stands for an ARBITRARY other algorithm identifier the decoder knows (rsa-with-sm3, ecdsa-with-sha256, ...) */
	*oid = ((*in)[1] == 1) ? OID_sm2sign_with_sm3 : g_alg; *in += 2; *inlen -= 2; return 1;
}
#ifndef TBSL
#define TBSL 4
#endif
#ifndef SIGL
#define SIGL 3
#endif
void h_signed_verify(void)
{
	/* SEQUENCE { tbs: SEQUENCE(TBSL bytes), alg: A1 xx, sig: BIT STRING (unused, SIGL bytes) } + optional trailing byte */
	uint8_t a[64]; size_t n = 0;
	uint8_t alg = nondet_u8(), unused = nondet_u8(), trailing = nondet_bool();
	size_t inner = (2 + TBSL) + 2 + (2 + 1 + SIGL);
	a[n++] = 0x30; a[n++] = (uint8_t)inner;
	size_t tbs_off = n; a[n++] = 0x30; a[n++] = TBSL; for (int i = 0; i < TBSL; i++) a[n++] = nondet_u8();
	a[n++] = 0xA1; a[n++] = alg;
	a[n++] = 0x03; a[n++] = 1 + SIGL; a[n++] = unused; size_t sig_off = n; for (int i = 0; i < SIGL; i++) a[n++] = nondet_u8();
	if (trailing) a[n++] = nondet_u8();
	SM2_KEY key; memset(&key, 0, sizeof(key)); const char *id = "ab";
	v_verdict = nondet_int(); ASSUME(v_verdict == 1 || v_verdict == -1 || v_verdict == 0);
	g_alg = nondet_int(); ASSUME(g_alg != OID_sm2sign_with_sm3);
	int ret = x509_signed_verify(a, n, &key, id, 2);
	if (ret == 1) {
		V_COVER("signed object accepted");
		CHECK(!trailing, "no trailing bytes after the signed structure");
		CHECK(alg == 1, "outer signature algorithm is sm2sign-with-sm3");
		CHECK(unused == 0, "signature BIT STRING has no unused bits (any change of that octet is rejected)");
		CHECK(v_data == a + tbs_off && v_datalen == 2 + TBSL, "exactly the TBS encoding (header included) is hashed");
		CHECK(v_sig == a + sig_off && v_siglen == SIGL, "exactly the signature octets are verified");
		CHECK(v_key == &key && v_id == id && v_idlen == 2 && v_verdict == 1, "under the caller's key and signer ID, and the signature verified");
	}
	V_REACH();
}
#elif defined(EXTENC)
/* ---- extension encoder: dry-run length = written length = header-consistent, for content sizes around the 127/128 boundary ---- */
#ifndef DL
#define DL 124
#endif
/* not declared in a public header */
int x509_ext_to_der_ex(int oid, int critical, const uint8_t *d, size_t dlen, uint8_t **out, size_t *outlen);
void h_ext_to_der(void)
{
	static uint8_t d[DL], out[DL + 40];
	v_havoc(d, sizeof(d));
	int crit = nondet_int(); ASSUME(crit == -1 || crit == 0 || crit == 1);
	uint8_t *p = out; size_t dry = 0, len = 0;
	CHECK(x509_ext_to_der_ex(OID_ce_subject_alt_name, crit, d, DL, NULL, &dry) == 1, "dry");
	CHECK(x509_ext_to_der_ex(OID_ce_subject_alt_name, crit, d, DL, &p, &len) == 1 && len == dry && p == out + len, "dry-run length = bytes written");
	/* the outer SEQUENCE header must cover exactly the rest */
	size_t hl, body;
	if (out[1] < 0x80) { hl = 2; body = out[1]; } else if (out[1] == 0x81) { hl = 3; body = out[2]; } else { hl = 4; body = ((size_t)out[2] << 8) | out[3]; }
	CHECK(out[0] == 0x30 && hl + body == len, "outer SEQUENCE length covers exactly the encoded extension");
	int oid, critical; uint32_t nodes[32]; size_t nodes_cnt; const uint8_t *val; size_t vlen; const uint8_t *cp = out; size_t l = len;
	CHECK(x509_ext_from_der(&oid, nodes, &nodes_cnt, &critical, &val, &vlen, &cp, &l) == 1 && l == 0, "parses back, consuming everything");
	CHECK(oid == OID_ce_subject_alt_name && vlen >= DL, "same extension id; value carries the content");
	V_REACH();
}
#endif
