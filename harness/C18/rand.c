/* C18: randomised operations are entropy-driven and fail closed.
 * rand_bytes() is the entropy source: draw number g_fail_at fails (symbolic fault schedule), every other draw returns
 * arbitrary bytes that are logged.  Heavy arithmetic below the randomised decision is an opaque recorder. */
#include <stdio.h>
#include <string.h>
#include <time.h>
#include <gmssl/sm2.h>
#include <gmssl/sm3.h>
#include <gmssl/sm4.h>
#include <gmssl/tls.h>
#include <gmssl/rand.h>
#include "verif.h"

static int g_draws, g_fail_at = -1; static uint8_t g_last[64]; static size_t g_last_len; static int g_failed;
int rand_bytes(uint8_t *buf, size_t len)
{
	int me = g_draws++;
	if (me == g_fail_at) { g_failed = 1; return -1; }       /* buffer left untouched: its content is whatever was there */
	__CPROVER_assert(len <= 64, "draw size");
	for (size_t i = 0; i < len; i++) { buf[i] = nondet_u8(); g_last[i] = buf[i]; }
	g_last_len = len;
#ifdef SM9RR
	/* bound: the third draw is below the range (the real sampler gives up after 100 rejected draws) */
	if (me >= 2 && len == 32) { uint64_t v3; memcpy(&v3, buf + 24, 8); __CPROVER_assume(v3 < 0xb640000000000000ULL); }
#endif
	return 1;
}
typedef unsigned __CPROVER_bitvector[264] W;
static W val(const uint64_t a[4]) { return (W)a[0] | ((W)a[1] << 64) | ((W)a[2] << 128) | ((W)a[3] << 192); }
static int g_mulgen, g_mulgen_after_fail; static uint64_t g_k[4];
void sm2_z256_point_mul_generator(SM2_Z256_POINT *R, const sm2_z256_t k) { g_mulgen++; if (g_failed) g_mulgen_after_fail = 1; memcpy(g_k, k, 32); memset(R, 0x42, sizeof(*R)); }
static uint64_t last_as_limbs(int i) { uint64_t v; memcpy(&v, g_last + 8 * i, 8); return v; }   /* rand_range fills the limb array directly */

/* ---- key generation ---- */
void h_keygen(void)
{
	g_fail_at = nondet_int(); ASSUME(g_fail_at >= -1 && g_fail_at <= 2);
	SM2_KEY key; memset(&key, 0, sizeof(key));
	int ret = sm2_key_generate(&key);
	if (g_failed) { CHECK(ret != 1, "entropy failure is reported"); CHECK(!g_mulgen_after_fail, "no public key computed from unfilled randomness"); }
	if (ret == 1) {
		V_COVER("keygen success path");
		W n = val(sm2_z256_order()), d = val(key.private_key);
		CHECK(d >= 1 && d <= n - 2, "generated private key in [1, n-2]");
		CHECK(g_mulgen == 1 && val(g_k) == d, "public key = [d]G for that d");
		for (int i = 0; i < 4; i++) CHECK(key.private_key[i] == last_as_limbs(i), "the private key is the last accepted entropy draw");
	}
	V_REACH();
}

/* ---- ephemeral scalar of sm2_do_encrypt / sm2_do_sign: entropy-driven, in [1, n-1] ---- */
static int g_stop;
int sm2_z256_point_to_bytes(const SM2_Z256_POINT *P, uint8_t out[64]) { memset(out, 1, 64); return 1; }
void sm2_z256_point_mul(SM2_Z256_POINT *R, const sm2_z256_t k, const SM2_Z256_POINT *P) { memset(R, 0x43, sizeof(*R)); }
int sm2_kdf(const uint8_t *in, size_t inlen, size_t outlen, uint8_t *out) { for (size_t i = 0; i < outlen; i++) out[i] = 0x5a; return 1; }
void sm3_init(SM3_CTX *c) { } void sm3_update(SM3_CTX *c, const uint8_t *d, size_t n) { } void sm3_finish(SM3_CTX *c, uint8_t d[32]) { memset(d, 0, 32); }
void h_encrypt_nonce(void)
{
	g_fail_at = nondet_int(); ASSUME(g_fail_at >= -1 && g_fail_at <= 2);
	SM2_KEY key; memset(&key, 0, sizeof(key));
	uint8_t m[2] = {1, 2}; SM2_CIPHERTEXT C; memset(&C, 0xEE, sizeof(C));
	int ret = sm2_do_encrypt(&key, m, 2, &C);
	if (g_failed) { CHECK(ret != 1, "entropy failure is reported"); CHECK(!g_mulgen_after_fail, "no C1 computed after the failed draw"); }
	if (ret == 1) {
		V_COVER("encrypt success path");
		W n = val(sm2_z256_order()), k = val(g_k);
		CHECK(g_mulgen >= 1 && k >= 1 && k < n, "ephemeral scalar in [1, n-1] (never 0)");
		for (int i = 0; i < 4; i++) CHECK(g_k[i] == last_as_limbs(i), "ephemeral scalar = last accepted entropy draw");
	}
	V_REACH();
}

/* ---- TLS randoms ---- */
static time_t g_now;
time_t time(time_t *t) { if (t) *t = g_now; return g_now; }
void h_tls_random(void)
{
	g_fail_at = nondet_int(); ASSUME(g_fail_at >= -1 && g_fail_at <= 1);
	g_now = (time_t)nondet_u32();
	uint8_t r[32]; memset(r, 0xEE, 32);
	int ret = tls_random_generate(r);
	if (g_failed) CHECK(ret != 1, "entropy failure is reported");
	if (ret == 1) {
		V_COVER("tls random success path");
		CHECK(r[0] == (uint8_t)(g_now >> 24) && r[1] == (uint8_t)(g_now >> 16) && r[2] == (uint8_t)(g_now >> 8) && r[3] == (uint8_t)g_now, "first 4 bytes = clock");
		for (int i = 0; i < 28; i++) CHECK(r[4 + i] == g_last[i], "28 bytes straight from the entropy source");
	}
	uint8_t pms[48]; g_draws = 0; g_failed = 0; g_fail_at = nondet_int(); ASSUME(g_fail_at >= -1 && g_fail_at <= 1);
	ret = tls_pre_master_secret_generate(pms, TLS_protocol_tlcp);
	if (g_failed) CHECK(ret != 1, "entropy failure is reported");
	if (ret == 1) { CHECK(pms[0] == (TLS_protocol_tlcp >> 8) && pms[1] == (TLS_protocol_tlcp & 0xff), "version prefix"); for (int i = 0; i < 46; i++) CHECK(pms[2 + i] == g_last[i], "46 bytes from the entropy source"); }
	V_REACH();
}

#ifdef SM9RR
/* ---- sm9_z256_rand_range (used by every randomised SM9 operation) ---- */
#include <gmssl/sm9_z256.h>
void h_sm9_rand_range(void)
{
	g_fail_at = nondet_int(); ASSUME(g_fail_at >= -1 && g_fail_at <= 2);
	sm9_z256_t r = { 0xdeadbeef, 1, 2, 3 };
	const uint64_t *N = sm9_z256_order();
	int ret = sm9_z256_rand_range(r, N);
	if (g_failed) CHECK(ret != 1, "a failing draw (the first or a later one) is reported");
	if (ret == 1) {
		V_COVER("value delivered");
		CHECK(val(r) < val(N), "the delivered value is below the range");
		CHECK(g_last_len == 32 && r[0] == last_as_limbs(0) && r[1] == last_as_limbs(1) && r[2] == last_as_limbs(2) && r[3] == last_as_limbs(3), "the delivered value is the last successful draw");
	}
	if (g_failed && g_draws >= 2) V_COVER("failure on a re-draw");
	V_REACH();
}
#endif
