/* C18: password-based private key encryption draws salt and IV and fails closed */
#include <stdio.h>
#include <string.h>
#include <gmssl/sm2.h>
#include <gmssl/sm3.h>
#include <gmssl/sm4.h>
#include <gmssl/pkcs8.h>
#include <gmssl/rand.h>
#ifdef SM9
#include <gmssl/sm9.h>
#endif
#include "verif.h"
static int g_draws, g_fail_at = -1, g_failed; static uint8_t g_d[2][16];
int rand_bytes(uint8_t *buf, size_t len)
{
	int me = g_draws++;
	if (me == g_fail_at) { g_failed = 1; return -1; }
	__CPROVER_assert(me < 2 && len == 16, "two 16-byte draws");
	for (size_t i = 0; i < len; i++) { buf[i] = nondet_u8(); g_d[me][i] = buf[i]; }
	return 1;
}
static int g_emitted; static uint8_t e_salt[16], e_iv[16], c_iv[16], k_salt[16];
#ifdef SM9
int sm9_sign_master_key_to_der(const SM9_SIGN_MASTER_KEY *msk, uint8_t **out, size_t *outlen) { memset(*out, 7, 20); *out += 20; *outlen += 20; return 1; }
int sm9_private_key_info_to_der(int alg, int params, const uint8_t *prikey, size_t prikey_len, uint8_t **out, size_t *outlen) { memset(*out, 8, 30); *out += 30; *outlen += 30; return 1; }   /* static in the unit; built with -Dstatic= */
#else
int sm2_private_key_info_to_der(const SM2_KEY *key, uint8_t **out, size_t *outlen) { memset(*out, 7, 20); *out += 20; *outlen += 20; return 1; }
#endif
int sm3_pbkdf2(const char *pass, size_t passlen, const uint8_t *salt, size_t saltlen, size_t count, size_t outlen, uint8_t *out)
{ __CPROVER_assert(saltlen == 16 && outlen == 16, "kdf sizes"); memcpy(k_salt, salt, 16); memset(out, 9, outlen); return 1; }
void sm4_set_encrypt_key(SM4_KEY *key, const uint8_t raw[16]) { }
int sm4_cbc_padding_encrypt(const SM4_KEY *key, const uint8_t iv[16], const uint8_t *in, size_t inlen, uint8_t *out, size_t *outlen)
{ memcpy(c_iv, iv, 16); *outlen = (inlen / 16 + 1) * 16; memset(out, 3, *outlen); return 1; }
int pkcs8_enced_private_key_info_to_der(const uint8_t *salt, size_t saltlen, int iter, int keylen, int prf, int cipher, const uint8_t *iv, size_t ivlen,
	const uint8_t *enced, size_t encedlen, uint8_t **out, size_t *outlen)
{ g_emitted++; memcpy(e_salt, salt, 16); memcpy(e_iv, iv, 16); *outlen += 10; return 1; }
size_t strlen(const char *s) { return 3; }
void h_pkcs8_encrypt(void)
{
	g_fail_at = nondet_int(); ASSUME(g_fail_at >= -1 && g_fail_at <= 2);
	uint8_t buf[64]; uint8_t *p = buf; size_t outlen = 0;
#ifdef SM9
	SM9_SIGN_MASTER_KEY key; memset(&key, 0, sizeof(key));
	int ret = sm9_sign_master_key_info_encrypt_to_der(&key, "abc", &p, &outlen);
#else
	SM2_KEY key; memset(&key, 0, sizeof(key));
	int ret = sm2_private_key_info_encrypt_to_der(&key, "abc", &p, &outlen);
#endif
	if (g_failed) { CHECK(ret != 1, "entropy failure (salt or IV) is reported"); CHECK(g_emitted == 0, "nothing is emitted after a failed draw"); }
	if (ret == 1) {
		V_COVER("pkcs8 success path");
		CHECK(g_draws == 2 && g_emitted == 1, "salt and IV drawn, one object emitted");
		for (int i = 0; i < 16; i++) CHECK(e_salt[i] == g_d[0][i] && k_salt[i] == g_d[0][i], "salt in the output and in the KDF = first draw");
		for (int i = 0; i < 16; i++) CHECK(e_iv[i] == g_d[1][i] && c_iv[i] == g_d[1][i], "IV in the output and in the cipher = second draw");
	}
	V_REACH();
}
