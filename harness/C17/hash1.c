/* C17: sm9_z256_hash1 = H1(ID || hid, N): both hash evaluations absorb 0x01 || the whole identity (every one of its idlen bytes) || hid || counter,
 * and the 64 bytes handed to the range reduction are the two digests in order */
#include <stdio.h>
#include <string.h>
#include <gmssl/sm9.h>
#include <gmssl/sm3.h>
#include "verif.h"
#define MAXU 6
static struct { const uint8_t *p; size_t n; uint8_t first; } u[2][MAXU]; static int un[2]; static int cur = -1; static uint8_t dg[2][32]; static int fin[2];
static const uint8_t *ha_seen; static uint8_t ha_copy[64];
void sm3_init(SM3_CTX *c) { cur++; }
void sm3_update(SM3_CTX *c, const uint8_t *d, size_t n) { if (cur < 0 || cur > 1) { un[0] = 99; return; } if (un[cur] < MAXU) { u[cur][un[cur]].p = d; u[cur][un[cur]].n = n; u[cur][un[cur]].first = n ? d[0] : 0; if (n == 4) u[cur][un[cur]].first = d[3]; } un[cur]++; }
void sm3_finish(SM3_CTX *c, uint8_t out[32]) { if (cur < 0 || cur > 1) return; fin[cur]++; for (int i = 0; i < 32; i++) { dg[cur][i] = nondet_u8(); out[i] = dg[cur][i]; } }
void sm9_z256_modn_from_hash(sm9_z256_t h, const uint8_t Ha[64]) { ha_seen = Ha; memcpy(ha_copy, Ha, 64); h[0] = 1; h[1] = h[2] = h[3] = 0; }
void h_hash1(void)
{
	static char id[8192]; size_t idlen = nondet_size(); ASSUME(idlen >= 1 && idlen <= 8191);
	uint8_t hid = nondet_u8(); sm9_z256_t h;
	CHECK(sm9_z256_hash1(h, id, idlen, hid) == 1, "hash1 succeeds");
	CHECK(cur == 1 && fin[0] == 1 && fin[1] == 1, "two hash evaluations");
	for (int k = 0; k < 2; k++) {
		CHECK(un[k] == 4, "four items absorbed: prefix, identity, hid, counter");
		CHECK(u[k][0].n == 1 && u[k][0].first == 0x01, "prefix 0x01");
		CHECK(u[k][1].p == (const uint8_t *)id && u[k][1].n == idlen, "the whole identity: all idlen bytes, for every length 1..8191");
		CHECK(u[k][2].n == 1 && u[k][2].first == hid, "hid");
		CHECK(u[k][3].n == 4 && u[k][3].first == k + 1, "counter 1 for the first half, 2 for the second");
	}
	CHECK(ha_seen != 0, "range reduction applied");
	for (int i = 0; i < 32; i++) CHECK(ha_copy[i] == dg[0][i] && ha_copy[32 + i] == dg[1][i], "Ha = digest(ct=1) || digest(ct=2)");
	V_REACH();
}
