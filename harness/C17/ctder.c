/* C17 / C14: SM9 ciphertext DER codec (EnType 0 || C1 || C3 || C2) and the sm9_decrypt wrapper: from_der(to_der(C)) = C, dry run = written, exactly the
 * encoding consumed; the wrapper refuses trailing bytes and hands exactly the decoded (C1, C2, C3) to sm9_do_decrypt.  Point octets: abstract injective codec. */
#include <stdio.h>
#include <string.h>
#include <gmssl/sm9.h>
#include <gmssl/asn1.h>
#include "verif.h"
#ifndef CL
#define CL 3
#endif
static uint8_t g_oct[65]; static int g_from_verdict; static uint8_t g_from_seen[65];
int sm9_z256_point_to_uncompressed_octets(const SM9_Z256_POINT *P, uint8_t octets[65]) { memcpy(octets, g_oct, 65); return 1; }
int sm9_z256_point_from_uncompressed_octets(SM9_Z256_POINT *P, const uint8_t octets[65]) { memcpy(g_from_seen, octets, 65); if (g_from_verdict != 1) return -1; memset(P, 0, sizeof(*P)); memcpy(P->X, octets + 1, 32); return 1; }
static int g_dec_calls, g_dec_ret; static const uint8_t *g_dec_c2, *g_dec_c3; static size_t g_dec_c2len; static SM9_Z256_POINT g_dec_C1;
int sm9_do_decrypt(const SM9_ENC_KEY *key, const char *id, size_t idlen, const SM9_Z256_POINT *C1, const uint8_t *c2, size_t c2len, const uint8_t c3[32], uint8_t *out)
{ g_dec_calls++; g_dec_C1 = *C1; g_dec_c2 = c2; g_dec_c2len = c2len; g_dec_c3 = c3; return g_dec_ret; }
void h_ct_der(void)
{
	SM9_Z256_POINT C1, B1; memset(&C1, 0, sizeof(C1));
	uint8_t c2[CL ? CL : 1], c3[32];
	for (int i = 0; i < CL; i++) c2[i] = nondet_u8();
	for (int i = 0; i < 32; i++) c3[i] = nondet_u8();
	for (int i = 0; i < 65; i++) g_oct[i] = nondet_u8();
	g_from_verdict = nondet_bool() ? 1 : -1;
	static uint8_t buf[CL + 140]; uint8_t *p = buf; size_t len = 0, dry = 0;
	CHECK(sm9_ciphertext_to_der(&C1, c2, CL, c3, NULL, &dry) == 1, "dry run");
	CHECK(sm9_ciphertext_to_der(&C1, c2, CL, c3, &p, &len) == 1 && len == dry && p == buf + len, "encoded length = dry-run length");
	size_t extra = nondet_size(); ASSUME(extra <= 1); buf[len] = nondet_u8();
	const uint8_t *cp = buf, *b2 = 0, *b3 = 0; size_t l = len + extra, b2len = 0;
	int r = sm9_ciphertext_from_der(&B1, &b2, &b2len, &b3, &cp, &l);
	CHECK((r == 1) == (g_from_verdict == 1), "decoding succeeds exactly when the point decoder accepts C1");
	if (r == 1) {
		V_COVER("ciphertext decoded");
		CHECK(cp == buf + len && l == extra, "exactly the encoding is consumed");
		CHECK(b2len == CL, "C2 length round-trips");
		for (int i = 0; i < CL; i++) CHECK(b2[i] == c2[i], "C2 round-trips");
		for (int i = 0; i < 32; i++) CHECK(b3[i] == c3[i], "C3 round-trips");
		CHECK(memcmp(g_from_seen, g_oct, 65) == 0, "the 65 octets of C1 round-trip");
	}
	SM9_ENC_KEY key; memset(&key, 0, sizeof(key)); uint8_t out[CL ? CL : 1]; size_t outlen = 0;
	g_dec_ret = nondet_bool() ? 1 : -1;
	int v = sm9_decrypt(&key, "id", 2, buf, len + extra, out, &outlen);
	if (v == 1) {
		V_COVER("ciphertext opened by the wrapper");
		CHECK(extra == 0 && g_from_verdict == 1, "no trailing bytes; C1 accepted by the point decoder");
		CHECK(g_dec_calls == 1 && g_dec_ret == 1 && g_dec_c2len == CL && outlen == CL, "sm9_do_decrypt accepted C2 of the encoded length");
		for (int i = 0; i < CL; i++) CHECK(g_dec_c2[i] == c2[i], "C2 handed on unchanged");
		for (int i = 0; i < 32; i++) CHECK(g_dec_c3[i] == c3[i], "C3 handed on unchanged");
		CHECK(memcmp(g_dec_C1.X, g_oct + 1, 32) == 0, "C1 handed on as decoded");
	}
	V_REACH();
}
