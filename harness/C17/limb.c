/* C13-a: limb layer of src/sm9_z256.c against wide bit-vector arithmetic. Exact: all operands. */
#include <stdio.h>
#include <gmssl/sm9_z256.h>
#include "verif.h"
extern const sm9_z256_t SM9_Z256_P;
#define SM9_P SM9_Z256_P

typedef unsigned __CPROVER_bitvector[264] W;
typedef unsigned __CPROVER_bitvector[520] WW;

static W val(const uint64_t a[4]) {
	return (W)a[0] | ((W)a[1] << 64) | ((W)a[2] << 128) | ((W)a[3] << 192);
}
static void any(uint64_t a[4]) { a[0] = nondet_u64(); a[1] = nondet_u64(); a[2] = nondet_u64(); a[3] = nondet_u64(); }

#define TWO256 (((W)1) << 256)
static W P(void) { return val(SM9_P); }
static W N(void) { return val(sm9_z256_order()); }

/* independent constants (GB/T 32918.5) */
/* GB/T 38635.1 parameters */
static const uint64_t REF_P[4] = {0xe56f9b27e351457dULL, 0x21f2934b1a7aeedbULL, 0xd603ab4ff58ec745ULL, 0xb640000002a3a6f1ULL};
static const uint64_t REF_N[4] = {0xe56ee19cd69ecf25ULL, 0x49f2934b18ea8beeULL, 0xd603ab4ff58ec744ULL, 0xb640000002a3a6f1ULL};
void h_consts(void) { CHECK(val(SM9_Z256_P) == val(REF_P) && val(sm9_z256_order()) == val(REF_N), "p, n = GB/T 38635.1 constants"); V_REACH(); }


void h_add(void) {
	uint64_t a[4], b[4], r[4]; any(a); any(b);
	uint64_t c = sm9_z256_add(r, a, b);
	CHECK(c <= 1, "carry is 0/1");
	CHECK(val(r) + ((W)c << 256) == val(a) + val(b), "add = a+b");
	V_REACH();
}
void h_add_alias(void) {
	uint64_t a[4], b[4], a0[4]; any(a); any(b);
	a0[0]=a[0];a0[1]=a[1];a0[2]=a[2];a0[3]=a[3];
	uint64_t c = sm9_z256_add(a, a, b);
	CHECK(val(a) + ((W)c << 256) == val(a0) + val(b), "add in place");
	V_REACH();
}
void h_sub(void) {
	uint64_t a[4], b[4], r[4]; any(a); any(b);
	uint64_t c = sm9_z256_sub(r, a, b);
	CHECK(c <= 1, "borrow is 0/1");
	CHECK(val(r) + val(b) == val(a) + ((W)c << 256), "sub = a-b");
	CHECK((c == 1) == (val(a) < val(b)), "borrow iff a<b");
	V_REACH();
}
void h_cmp(void) {
	uint64_t a[4], b[4]; any(a); any(b);
	int r = sm9_z256_cmp(a, b);
	W x = val(a), y = val(b);
	CHECK(r == (x > y ? 1 : (x < y ? -1 : 0)), "cmp");
	CHECK(sm9_z256_equ(a, b) == (uint64_t)(x == y), "equ");
	CHECK(sm9_z256_is_zero(a) == (uint64_t)(x == 0), "is_zero");
	V_REACH();
}
void h_bytes(void) {
	uint8_t in[32], out[32]; uint64_t a[4];
	for (int i = 0; i < 32; i++) in[i] = nondet_u8();
	sm9_z256_from_bytes(a, in);
	W v = 0;
	for (int i = 0; i < 32; i++) v = (v << 8) | in[i];
	CHECK(val(a) == v, "from_bytes is big-endian");
	sm9_z256_to_bytes(a, out);
	for (int i = 0; i < 32; i++) CHECK(out[i] == in[i], "to_bytes inverts from_bytes");
	V_REACH();
}
void h_to_bytes(void) {
	uint8_t out[32]; uint64_t a[4], b[4]; any(a);
	sm9_z256_to_bytes(a, out);
	W v = 0;
	for (int i = 0; i < 32; i++) v = (v << 8) | out[i];
	CHECK(val(a) == v, "to_bytes is big-endian");
	V_REACH();
}

#define MODADD(NAME, FN, M) void NAME(void) { \
	uint64_t a[4], b[4], r[4]; any(a); any(b); W m = M; \
	ASSUME(val(a) < m && val(b) < m); \
	FN(r, a, b); \
	CHECK(val(r) < m, #FN " result reduced"); \
	{ W sm = val(a) + val(b); CHECK(val(r) == (sm >= m ? sm - m : sm), #FN " = a+b mod m"); } \
	FN(a, a, b); CHECK(val(a) == val(r), #FN " in place"); \
	V_REACH(); }
#define MODSUB(NAME, FN, M) void NAME(void) { \
	uint64_t a[4], b[4], r[4]; any(a); any(b); W m = M; \
	ASSUME(val(a) < m && val(b) < m); \
	FN(r, a, b); \
	CHECK(val(r) < m, #FN " result reduced"); \
	{ W df = val(a) + m - val(b); CHECK(val(r) == (df >= m ? df - m : df), #FN " = a-b mod m"); } \
	FN(b, a, b); CHECK(val(b) == val(r), #FN " in place (r==b)"); \
	V_REACH(); }
#define MODNEG(NAME, FN, M) void NAME(void) { \
	uint64_t a[4], r[4]; any(a); W m = M; \
	ASSUME(val(a) < m); \
	FN(r, a); \
	CHECK(val(r) < m, #FN " result reduced"); \
	CHECK(val(r) + val(a) == m || (val(r) == 0 && val(a) == 0), #FN " = -a mod m"); \
	V_REACH(); }

MODADD(h_modp_add, sm9_z256_modp_add, P())
MODADD(h_modn_add, sm9_z256_modn_add, N())
MODSUB(h_modp_sub, sm9_z256_modp_sub, P())
MODSUB(h_modn_sub, sm9_z256_modn_sub, N())
MODNEG(h_modp_neg, sm9_z256_modp_neg, P())

void h_modp_dbl(void) {
	uint64_t a[4], r[4]; any(a); W m = P();
	ASSUME(val(a) < m);
	sm9_z256_modp_dbl(r, a);
	{ W v2 = 2 * val(a); if (v2 >= m) v2 -= m; CHECK(val(r) == v2, "modp_dbl"); }
	sm9_z256_modp_dbl(a, a);
	CHECK(val(r) == val(a), "modp_dbl in place");
	V_REACH();
}
void h_modp_tri(void) {
	uint64_t a[4], r[4]; any(a); W m = P();
	ASSUME(val(a) < m);
	sm9_z256_modp_tri(r, a);
	{ W v3 = 3 * val(a); if (v3 >= m) v3 -= m; if (v3 >= m) v3 -= m; CHECK(val(r) == v3, "modp_tri"); }
	sm9_z256_modp_tri(a, a);
	CHECK(val(r) == val(a), "modp_tri in place");
	V_REACH();
}
void h_modp_haf(void) {
	uint64_t a[4], r[4]; any(a); W m = P();
	ASSUME(val(a) < m);
	sm9_z256_modp_haf(r, a);
	CHECK(val(r) < m, "haf reduced");
	{ W v2 = 2 * val(r); if (v2 >= m) v2 -= m; CHECK(v2 == val(a), "2*haf(a) = a mod p"); }
	sm9_z256_modp_haf(a, a);
	CHECK(val(r) == val(a), "haf in place");
	V_REACH();
}

/* Booth recoding: the signed digits reconstruct k, each digit within the table range. */
#ifndef BOOTH_W
#define BOOTH_W 5
#endif
