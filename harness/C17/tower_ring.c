/* C17 (field tower, generic base ring): the Fp4, Fp12 and G2 formulas of src/sm9_z256.c only use the layer below them
 * through its ring operations (add, sub, mul, sqr, multiplication by the adjoined element, inverse).  Here the layer below
 * is instantiated by the prime field F_PF itself, with the adjoined element (u for Fp4 and G2, v for Fp12) mapped to an
 * ARBITRARY constant c of F_PF:
 *     LEVEL 2 : real sm9_z256_fp4_*  over  R = F_PF, u := c      reference: R[v]/(v^2 - c)
 *     LEVEL 3 : real sm9_z256_fp12_* over  R = F_PF, v := c      reference: R[w]/(w^3 - c)
 *     LEVEL G2: real sm9_z256_twist_point_* over the field R = F_PF    reference: affine chord-tangent law on y^2 = x^3 + b
 * A formula that is a polynomial identity over every commutative ring holds here; a formula that differs from the
 * definition by a polynomial not vanishing identically on F_PF (for every c) is refuted.  The multiplicative functions of
 * the layer below are the ring's (stubs below); its linear functions (add, sub, neg, dbl, tri, haf, copy, is_zero, equ,
 * mul_fp ...) are the real component-wise ones.  The real Fp2 / Fp4 functions are compared with their definitions by
 * C17.tower.fp2_* / fp4_* (harness/C17/tower.c). */
#include <stdio.h>
#include <string.h>
#include <gmssl/sm9_z256.h>
#include "verif.h"
#include "smallf.h"
#ifndef LEVEL
#define LEVEL 2
#endif
#ifndef PART
#define PART 0
#endif
typedef sf sv;
extern const sm9_z256_t SM9_Z256_MODP_MONT_ONE, SM9_Z256_MODP_MONT_FIVE, SM9_Z256_MODP_2e512;
extern const sm9_z256_fp2_t SM9_Z256_FP2_MONT_5U;
extern const sm9_z256_fp4_t SM9_Z256_FP4_MONT_ONE;
static void setw(const uint64_t *c, sv v) { uint64_t *w = (uint64_t *)c; w[0] = v; w[1] = w[2] = w[3] = 0; }
static sv any(void) { sv a = nondet_u8(); ASSUME(a < PF); return a; }
static sv g_c, g_b;      /* the adjoined element's image; the curve coefficient */
static void setup(void)
{
	setw(SM9_Z256_MODP_MONT_ONE, 2 % PF); setw(SM9_Z256_MODP_2e512, 4 % PF); setw(SM9_Z256_FP4_MONT_ONE[0][0], 2 % PF);
	g_c = any(); g_b = any();
}
#define fadd sf_add
#define fsub sf_sub
#define fmul sf_mul
#define finv sf_inv
static sv rd(const uint64_t a[4]) { CHECK(a[1] == 0 && a[2] == 0 && a[3] == 0 && a[0] < PF, "library result reduced"); return sf_haf((sv)a[0]); }
static void wr(uint64_t r[4], sv v) { r[0] = fadd(v, v); r[1] = r[2] = r[3] = 0; }
static int z4(const uint64_t a[4]) { return a[0] == 0 && a[1] == 0 && a[2] == 0 && a[3] == 0; }

#if LEVEL == 2 || LEVEL == 22
/* ---- the base ring as "Fp2": element x <-> (mont(x), 0) ---- */
static sv r2(const sm9_z256_fp2_t a) { __CPROVER_assert(z4(a[1]), "base ring element (second component unused)"); return rd(a[0]); }
static void w2(sm9_z256_fp2_t r, sv v) { wr(r[0], v); wr(r[1], 0); }
void sm9_z256_fp2_mul(sm9_z256_fp2_t r, const sm9_z256_fp2_t a, const sm9_z256_fp2_t b) { w2(r, fmul(r2(a), r2(b))); }
void sm9_z256_fp2_sqr(sm9_z256_fp2_t r, const sm9_z256_fp2_t a) { sv x = r2(a); w2(r, fmul(x, x)); }
void sm9_z256_fp2_mul_u(sm9_z256_fp2_t r, const sm9_z256_fp2_t a, const sm9_z256_fp2_t b) { w2(r, fmul(g_c, fmul(r2(a), r2(b)))); }
void sm9_z256_fp2_sqr_u(sm9_z256_fp2_t r, const sm9_z256_fp2_t a) { sv x = r2(a); w2(r, fmul(g_c, fmul(x, x))); }
void sm9_z256_fp2_a_mul_u(sm9_z256_fp2_t r, sm9_z256_fp2_t a) { w2(r, fmul(g_c, r2(a))); }
void sm9_z256_fp2_inv(sm9_z256_fp2_t r, const sm9_z256_fp2_t a) { w2(r, finv(r2(a))); }
#endif
#if LEVEL == 2
typedef struct { sv c[2]; } Q;      /* R[v]/(v^2 - c) */
static Q q(sv a, sv b) { Q r; r.c[0] = a; r.c[1] = b; return r; }
static Q q_mul(Q a, Q b) { return q(fadd(fmul(a.c[0], b.c[0]), fmul(g_c, fmul(a.c[1], b.c[1]))), fadd(fmul(a.c[0], b.c[1]), fmul(a.c[1], b.c[0]))); }
static Q q_mulv(Q a) { return q(fmul(g_c, a.c[1]), a.c[0]); }
static int q_eq(Q a, Q b) { return a.c[0] == b.c[0] && a.c[1] == b.c[1]; }
static Q rq(const sm9_z256_fp4_t a) { return q(r2(a[0]), r2(a[1])); }
static void wq(sm9_z256_fp4_t r, Q v) { w2(r[0], v.c[0]); w2(r[1], v.c[1]); }
void h_fp4_over_ring(void)
{
	setup();
	Q a = q(any(), any()), b = q(any(), any());
	sm9_z256_fp4_t A, B, R;
	wq(A, a); wq(B, b);
	sm9_z256_fp4_mul(R, A, B); CHECK(q_eq(rq(R), q_mul(a, b)), "fp4_mul = product in R[v]/(v^2 - u)");
	sm9_z256_fp4_mul_v(R, A, B); CHECK(q_eq(rq(R), q_mulv(q_mul(a, b))), "fp4_mul_v = a b v");
	sm9_z256_fp4_sqr(R, A); CHECK(q_eq(rq(R), q_mul(a, a)), "fp4_sqr = a a");
	sm9_z256_fp4_sqr_v(R, A); CHECK(q_eq(rq(R), q_mulv(q_mul(a, a))), "fp4_sqr_v = a a v");
	sm9_z256_fp4_copy(R, A); sm9_z256_fp4_a_mul_v(R, R); CHECK(q_eq(rq(R), q_mulv(a)), "fp4_a_mul_v = a v (in place)");
	sm9_z256_fp4_copy(R, A); sm9_z256_fp4_mul(R, R, B); CHECK(q_eq(rq(R), q_mul(a, b)), "fp4_mul in place (r = a)");
	sm9_z256_fp4_copy(R, B); sm9_z256_fp4_mul(R, A, R); CHECK(q_eq(rq(R), q_mul(a, b)), "fp4_mul in place (r = b)");
	sm9_z256_fp4_copy(R, A); sm9_z256_fp4_sqr(R, R); CHECK(q_eq(rq(R), q_mul(a, a)), "fp4_sqr in place");
	sv norm = fsub(fmul(a.c[0], a.c[0]), fmul(g_c, fmul(a.c[1], a.c[1])));
	if (norm != 0) { sm9_z256_fp4_inv(R, A); CHECK(q_eq(q_mul(rq(R), a), q(1, 0)), "fp4_inv: a a^-1 = 1 whenever the norm a0^2 - u a1^2 is invertible"); V_COVER("invertible element"); }
	V_REACH();
}
#endif

#if LEVEL == 3
/* ---- the base ring as "Fp4": element x <-> ((mont(x), 0), (0, 0)) ---- */
static sv r4(const sm9_z256_fp4_t a) { __CPROVER_assert(z4(a[0][1]) && z4(a[1][0]) && z4(a[1][1]), "base ring element (other components unused)"); return rd(a[0][0]); }
static void w4(sm9_z256_fp4_t r, sv v) { memset(r, 0, sizeof(sm9_z256_fp4_t)); wr(r[0][0], v); }
void sm9_z256_fp4_mul(sm9_z256_fp4_t r, const sm9_z256_fp4_t a, const sm9_z256_fp4_t b) { w4(r, fmul(r4(a), r4(b))); }
void sm9_z256_fp4_sqr(sm9_z256_fp4_t r, const sm9_z256_fp4_t a) { sv x = r4(a); w4(r, fmul(x, x)); }
void sm9_z256_fp4_mul_v(sm9_z256_fp4_t r, const sm9_z256_fp4_t a, const sm9_z256_fp4_t b) { w4(r, fmul(g_c, fmul(r4(a), r4(b)))); }
void sm9_z256_fp4_sqr_v(sm9_z256_fp4_t r, const sm9_z256_fp4_t a) { sv x = r4(a); w4(r, fmul(g_c, fmul(x, x))); }
void sm9_z256_fp4_a_mul_v(sm9_z256_fp4_t r, sm9_z256_fp4_t a) { w4(r, fmul(g_c, r4(a))); }
void sm9_z256_fp4_inv(sm9_z256_fp4_t r, const sm9_z256_fp4_t a) { w4(r, finv(r4(a))); }
typedef struct { sv c[3]; } C;      /* R[w]/(w^3 - c) */
static C c_mul(C a, C b)
{
	C r;
	r.c[0] = fadd(fmul(a.c[0], b.c[0]), fmul(g_c, fadd(fmul(a.c[1], b.c[2]), fmul(a.c[2], b.c[1]))));
	r.c[1] = fadd(fadd(fmul(a.c[0], b.c[1]), fmul(a.c[1], b.c[0])), fmul(g_c, fmul(a.c[2], b.c[2])));
	r.c[2] = fadd(fadd(fmul(a.c[0], b.c[2]), fmul(a.c[1], b.c[1])), fmul(a.c[2], b.c[0]));
	return r;
}
static int c_eq(C a, C b) { return a.c[0] == b.c[0] && a.c[1] == b.c[1] && a.c[2] == b.c[2]; }
static C rc(const sm9_z256_fp12_t a) { C r; for (int i = 0; i < 3; i++) r.c[i] = r4(a[i]); return r; }
static void wc(sm9_z256_fp12_t r, C v) { for (int i = 0; i < 3; i++) w4(r[i], v.c[i]); }
static C anyc(void) { C r; for (int i = 0; i < 3; i++) r.c[i] = any(); return r; }
void h_fp12_over_ring(void)
{
	setup();
	C a = anyc(), b = anyc(), one; one.c[0] = 1; one.c[1] = one.c[2] = 0;
	sm9_z256_fp12_t A, B, R;
	wc(A, a); wc(B, b);
#if PART == 0
	sm9_z256_fp12_mul(R, A, B); CHECK(c_eq(rc(R), c_mul(a, b)), "fp12_mul = product in R[w]/(w^3 - v)");
	sm9_z256_fp12_copy(R, A); sm9_z256_fp12_mul(R, R, B); CHECK(c_eq(rc(R), c_mul(a, b)), "fp12_mul in place (r = a)");
	sm9_z256_fp12_copy(R, B); sm9_z256_fp12_mul(R, A, R); CHECK(c_eq(rc(R), c_mul(a, b)), "fp12_mul in place (r = b)");
#elif PART == 1
	sm9_z256_fp12_sqr(R, A); CHECK(c_eq(rc(R), c_mul(a, a)), "fp12_sqr = a a");
	sm9_z256_fp12_copy(R, A); sm9_z256_fp12_sqr(R, R); CHECK(c_eq(rc(R), c_mul(a, a)), "fp12_sqr in place");
	sm9_z256_fp12_set_one(R); CHECK(c_eq(rc(R), one), "fp12_set_one");
	sm9_z256_fp12_add(R, A, B); { C s; for (int i = 0; i < 3; i++) s.c[i] = fadd(a.c[i], b.c[i]); CHECK(c_eq(rc(R), s), "fp12_add"); }
	sm9_z256_fp12_sub(R, A, B); { C s; for (int i = 0; i < 3; i++) s.c[i] = fsub(a.c[i], b.c[i]); CHECK(c_eq(rc(R), s), "fp12_sub"); }
	sm9_z256_fp12_neg(R, A); { C s; for (int i = 0; i < 3; i++) s.c[i] = sf_neg(a.c[i]); CHECK(c_eq(rc(R), s), "fp12_neg"); }
	CHECK(!!sm9_z256_fp12_equ(A, B) == c_eq(a, b), "fp12_equ");
#else
	/* inverse: both branches (a2 = 0 and a2 != 0); a is invertible iff its norm N(a) = a0^3 + c a1^3 + c^2 a2^3 - 3 c a0 a1 a2 is */
	sv a0 = a.c[0], a1 = a.c[1], a2 = a.c[2];
	sv n = fsub(fadd(fadd(fmul(fmul(a0, a0), a0), fmul(g_c, fmul(fmul(a1, a1), a1))), fmul(fmul(g_c, g_c), fmul(fmul(a2, a2), a2))), fmul(3 % PF, fmul(g_c, fmul(a0, fmul(a1, a2)))));
	if (n != 0) {
		sm9_z256_fp12_inv(R, A); CHECK(c_eq(c_mul(rc(R), a), one), "fp12_inv: a a^-1 = 1 whenever the norm is invertible (a2 = 0 branch and general branch)");
		if (a2 == 0) V_COVER("branch a2 = 0"); else V_COVER("general branch");
	}
#endif
	V_REACH();
}
#endif

#if LEVEL == 22
/* ---- G2 over the field R = F_PF : y^2 = x^3 + b ---- */
typedef struct { int inf; sv x, y; } AFF;
static int on(sv x, sv y) { return fmul(y, y) == fadd(fmul(fmul(x, x), x), g_b); }
static AFF any_pt(void) { AFF P; P.inf = nondet_bool(); P.x = any(); P.y = any(); if (!P.inf) { ASSUME(on(P.x, P.y)); ASSUME(P.y != 0); } return P; }
static void to_j(SM9_Z256_TWIST_POINT *J, AFF P, int affine)
{
	memset(J, 0, sizeof(*J));
	sv z = any(); ASSUME(z != 0); if (affine) z = 1;
	if (P.inf) { w2(J->X, any()); w2(J->Y, any()); return; }
	w2(J->X, fmul(P.x, fmul(z, z))); w2(J->Y, fmul(P.y, fmul(fmul(z, z), z))); w2(J->Z, z);
}
static AFF from_j(const SM9_Z256_TWIST_POINT *J)
{
	AFF P; sv Z = r2(J->Z), X = r2(J->X), Y = r2(J->Y);
	if (Z == 0) { P.inf = 1; P.x = P.y = 0; return P; }
	sv zi = finv(Z); P.inf = 0; P.x = fmul(X, fmul(zi, zi)); P.y = fmul(Y, fmul(fmul(zi, zi), zi));
	return P;
}
static AFF ref_add(AFF P, AFF Q)
{
	AFF R; R.inf = 0; R.x = R.y = 0; sv lam;
	if (P.inf) return Q;
	if (Q.inf) return P;
	if (P.x == Q.x) {
		if (P.y != Q.y || P.y == 0) { R.inf = 1; return R; }
		lam = fmul(fmul(3 % PF, fmul(P.x, P.x)), finv(fadd(P.y, P.y)));
	} else lam = fmul(fsub(Q.y, P.y), finv(fsub(Q.x, P.x)));
	R.x = fsub(fsub(fmul(lam, lam), P.x), Q.x);
	R.y = fsub(fmul(lam, fsub(P.x, R.x)), P.y);
	return R;
}
static int aeq(AFF a, AFF b) { return a.inf ? b.inf : (!b.inf && a.x == b.x && a.y == b.y); }
void h_g2_over_field(void)
{
	setup(); ASSUME(g_b != 0); setw(SM9_Z256_FP2_MONT_5U[0], fadd(g_b, g_b)); setw(SM9_Z256_FP2_MONT_5U[1], 0);
	AFF p = any_pt(), q = any_pt();
	SM9_Z256_TWIST_POINT P, Q, R;
	to_j(&P, p, 0);
#if PART == 0
	sm9_z256_twist_point_dbl(&R, &P); CHECK(aeq(from_j(&R), ref_add(p, p)), "twist_point_dbl = 2P");
	R = P; sm9_z256_twist_point_dbl(&R, &R); CHECK(aeq(from_j(&R), ref_add(p, p)), "twist_point_dbl in place");
	sm9_z256_twist_point_neg(&R, &P); { AFF n = p; n.y = sf_neg(p.y); CHECK(aeq(from_j(&R), n), "twist_point_neg"); }
	CHECK(!!sm9_z256_twist_point_is_at_infinity(&P) == p.inf, "twist is_at_infinity");
	if (!p.inf) {
		sm9_z256_fp2_t x, y; sm9_z256_twist_point_get_xy(&P, x, y);
		CHECK(r2(x) == p.x && r2(y) == p.y, "twist_point_get_xy = affine coordinates from every representative");
		CHECK(sm9_z256_twist_point_is_on_curve(&P) == 1, "twist is_on_curve accepts every representative of a curve point");
	}
#elif PART == 1
	to_j(&Q, q, 0);
	sm9_z256_twist_point_add_full(&R, &P, &Q); CHECK(aeq(from_j(&R), ref_add(p, q)), "twist_point_add_full = P + Q (incl. P = Q, P = -Q, infinity on either side)");
	if (!p.inf && !q.inf && p.x == q.x && p.y == q.y) V_COVER("P = Q"); else if (!p.inf && !q.inf && p.x == q.x) V_COVER("P = -Q");
#elif PART == 2
	to_j(&Q, q, 1);
	sm9_z256_twist_point_add(&R, &P, &Q); CHECK(aeq(from_j(&R), ref_add(p, q)), "twist_point_add = P + Q for affine Q (incl. P = Q, P = -Q, infinity)");
#elif PART == 3
	to_j(&Q, q, 0);
	{ AFF n = q; n.y = sf_neg(q.y); sm9_z256_twist_point_sub(&R, &P, &Q); CHECK(aeq(from_j(&R), ref_add(p, n)), "twist_point_sub = P - Q"); }
#else
	to_j(&Q, q, 0);
	if (!p.inf && !q.inf) CHECK(!!sm9_z256_twist_point_equ(&P, &Q) == aeq(p, q), "twist_point_equ compares the points, not the representatives");
	sv x = any(), y = any(), z = any(); ASSUME(z != 0);
	w2(P.X, fmul(x, fmul(z, z))); w2(P.Y, fmul(y, fmul(fmul(z, z), z))); w2(P.Z, z);
	CHECK((sm9_z256_twist_point_is_on_curve(&P) == 1) == on(x, y), "twist is_on_curve decides y^2 = x^3 + b for every (X, Y, Z != 0)");
#endif
	V_REACH();
}
#endif
