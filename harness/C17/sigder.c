/* C17 / C14: SM9 signature DER codec and the verify_finish wrapper: from_der(to_der(sig)) = sig and consumes exactly the encoding, h >= N is refused,
 * the wrapper hands exactly the decoded (h, S) to sm9_do_verify and refuses trailing bytes.  Point octets are an abstract injective codec. */
#include <stdio.h>
#include <string.h>
#include <gmssl/sm9.h>
#include <gmssl/asn1.h>
#include "verif.h"
static uint8_t g_oct[65]; static int g_from_verdict, g_from_calls; static uint8_t g_from_seen[65];
int sm9_z256_point_to_uncompressed_octets(const SM9_Z256_POINT *P, uint8_t octets[65]) { memcpy(octets, g_oct, 65); return 1; }
int sm9_z256_point_from_uncompressed_octets(SM9_Z256_POINT *P, const uint8_t octets[65]) { g_from_calls++; memcpy(g_from_seen, octets, 65); if (g_from_verdict != 1) return -1; memset(P, 0, sizeof(*P)); memcpy(P->X, octets + 1, 32); memcpy(P->Y, octets + 33, 32); return 1; }
static int g_verify_calls, g_verify_ret; static SM9_SIGNATURE g_verify_sig;
int sm9_do_verify(const SM9_SIGN_MASTER_KEY *mpk, const char *id, size_t idlen, const SM3_CTX *sm3_ctx, const SM9_SIGNATURE *sig) { g_verify_calls++; g_verify_sig = *sig; return g_verify_ret; }
typedef unsigned __CPROVER_bitvector[264] W;
static W val(const uint64_t a[4]) { return (W)a[0] | ((W)a[1] << 64) | ((W)a[2] << 128) | ((W)a[3] << 192); }
void h_sig_der(void)
{
	SM9_SIGNATURE sig, back; memset(&sig, 0, sizeof(sig)); memset(&back, 0xEE, sizeof(back));
	for (int i = 0; i < 4; i++) sig.h[i] = nondet_u64();
	for (int i = 0; i < 65; i++) g_oct[i] = nondet_u8();
	g_from_verdict = nondet_bool() ? 1 : -1;
	uint8_t buf[128]; uint8_t *p = buf; size_t len = 0, dry = 0;
	CHECK(sm9_signature_to_der(&sig, NULL, &dry) == 1, "dry run");
	CHECK(sm9_signature_to_der(&sig, &p, &len) == 1 && len == dry && p == buf + len, "encoded length = dry-run length");
	CHECK(len == SM9_SIGNATURE_SIZE, "fixed encoded size");
	size_t extra = nondet_size(); ASSUME(extra <= 2); buf[len] = nondet_u8(); buf[len + 1] = nondet_u8();
	const uint8_t *cp = buf; size_t l = len + extra;
	int r = sm9_signature_from_der(&back, &cp, &l);
	int inrange = val(sig.h) < val(sm9_z256_order());
	CHECK((r == 1) == (inrange && g_from_verdict == 1), "decoding succeeds exactly when h < N and the point decoder accepts S");
	if (r == 1) {
		V_COVER("signature decoded");
		CHECK(cp == buf + len && l == extra, "exactly the encoding is consumed");
		CHECK(back.h[0] == sig.h[0] && back.h[1] == sig.h[1] && back.h[2] == sig.h[2] && back.h[3] == sig.h[3], "h round-trips");
		CHECK(g_from_calls == 1 && memcmp(g_from_seen, g_oct, 65) == 0, "the 65 point octets round-trip");
	}
	/* the wrapper */
	SM9_SIGN_CTX ctx; SM9_SIGN_MASTER_KEY mpk; memset(&ctx, 0, sizeof(ctx)); memset(&mpk, 0, sizeof(mpk));
	g_verify_ret = nondet_int(); ASSUME(g_verify_ret == 1 || g_verify_ret == 0 || g_verify_ret == -1);
	g_from_calls = 0;
	int v = sm9_verify_finish(&ctx, buf, len + extra, &mpk, "id", 2);
	if (v == 1) {
		V_COVER("signature accepted by the wrapper");
		CHECK(extra == 0 && inrange && g_from_verdict == 1, "no trailing bytes, h < N, S accepted by the point decoder");
		CHECK(g_verify_calls == 1 && g_verify_ret == 1, "sm9_do_verify accepted");
		CHECK(g_verify_sig.h[0] == sig.h[0] && g_verify_sig.h[3] == sig.h[3] && memcmp(g_verify_sig.S.X, g_oct + 1, 32) == 0, "the decoded (h, S) is what was verified");
	}
	V_REACH();
}
