/* C17: sm9_do_decrypt accepts only if all 32 bytes of C3 equal HMAC(K2, C2) with (K1||K2) from the KEM, M = C2 xor K1 */
#include <stdio.h>
#include <string.h>
#include <gmssl/sm9.h>
#include <gmssl/sm3.h>
#include "verif.h"
#ifndef CL
#define CL 5
#endif
static uint8_t g_k[SM9_MAX_PLAINTEXT_SIZE + 32]; static int g_kem_verdict; static size_t g_klen;
int sm9_kem_decrypt(const SM9_ENC_KEY *key, const char *id, size_t idlen, const SM9_Z256_POINT *C, size_t klen, uint8_t *kbuf)
{ g_klen = klen; if (g_kem_verdict != 1) return -1; for (size_t i = 0; i < CL + 32; i++) { g_k[i] = nondet_u8(); kbuf[i] = g_k[i]; } return 1; }
static const uint8_t *h_keyp; static size_t h_keylen; static const uint8_t *h_data; static size_t h_datalen; static uint8_t h_mac[32]; static int h_upd;
static uint8_t h_key[32];
void sm3_hmac_init(SM3_HMAC_CTX *c, const uint8_t *key, size_t keylen) { h_keyp = key; h_keylen = keylen; if (keylen == 32) for (int i = 0; i < 32; i++) h_key[i] = key[i]; }
void sm3_hmac_update(SM3_HMAC_CTX *c, const uint8_t *d, size_t n) { h_upd++; h_data = d; h_datalen = n; }
void sm3_hmac_finish(SM3_HMAC_CTX *c, uint8_t mac[32]) { for (int i = 0; i < 32; i++) { h_mac[i] = nondet_u8(); mac[i] = h_mac[i]; } }
void h_sm9_decrypt(void)
{
	SM9_ENC_KEY key; SM9_Z256_POINT C1; memset(&key, 0, sizeof(key)); memset(&C1, 0, sizeof(C1));
	uint8_t c2[CL], c3[32], out[CL];
	for (int i = 0; i < CL; i++) c2[i] = nondet_u8();
	for (int i = 0; i < 32; i++) c3[i] = nondet_u8();
	g_kem_verdict = nondet_bool() ? 1 : -1;
	int ret = sm9_do_decrypt(&key, "id", 2, &C1, c2, CL, c3, out);
	if (ret == 1) {
		V_COVER("sm9 ciphertext accepted");
		CHECK(g_kem_verdict == 1, "KEM decapsulation succeeded");
		CHECK(h_upd == 1 && h_data == c2 && h_datalen == CL, "MAC over exactly C2");
		CHECK(h_keylen == 32, "MAC key K2 is 32 bytes taken after K1");
		for (int i = 0; i < 32; i++) CHECK(h_key[i] == g_k[CL + i], "K2 = the 32 bytes of key material right after K1");
		for (int i = 0; i < 32; i++) CHECK(c3[i] == h_mac[i], "all 32 bytes of C3 compared with the MAC");
		for (int i = 0; i < CL; i++) CHECK(out[i] == (uint8_t)(c2[i] ^ g_k[i]), "M = C2 xor K1");
	}
	V_REACH();
}
/* sm9_do_encrypt: C2 = M xor K1, C3 = HMAC(K2, C2) with (K1 || K2) the first |M| + 32 bytes of the encapsulated key; nothing is produced when encapsulation fails */
int sm9_kem_encrypt(const SM9_ENC_MASTER_KEY *mpk, const char *id, size_t idlen, size_t klen, uint8_t *kbuf, SM9_Z256_POINT *C)
{ g_klen = klen; if (g_kem_verdict != 1) return -1; for (size_t i = 0; i < CL + 32; i++) { g_k[i] = nondet_u8(); kbuf[i] = g_k[i]; } return 1; }
void h_sm9_encrypt(void)
{
	SM9_ENC_MASTER_KEY mpk; SM9_Z256_POINT C1; memset(&mpk, 0, sizeof(mpk));
	uint8_t m[CL], c2[CL], c3[32];
	for (int i = 0; i < CL; i++) { m[i] = nondet_u8(); c2[i] = 0x5c; }
	g_kem_verdict = nondet_bool() ? 1 : -1;
	int ret = sm9_do_encrypt(&mpk, "id", 2, m, CL, &C1, c2, c3);
	CHECK((ret == 1) == (g_kem_verdict == 1), "encryption succeeds exactly when the encapsulation did");
	if (ret == 1) {
		V_COVER("sm9 ciphertext produced");
		CHECK(g_klen >= CL + 32, "enough key material requested for K1 || K2");
		for (int i = 0; i < CL; i++) CHECK(c2[i] == (uint8_t)(m[i] ^ g_k[i]), "C2 = M xor K1");
		CHECK(h_upd == 1 && h_data == c2 && h_datalen == CL, "MAC over exactly C2");
		CHECK(h_keylen == 32, "MAC key K2 is 32 bytes");
		for (int i = 0; i < 32; i++) CHECK(h_key[i] == g_k[CL + i], "K2 = the 32 bytes of key material right after K1");
		for (int i = 0; i < 32; i++) CHECK(c3[i] == h_mac[i], "C3 = the MAC");
	}
	V_REACH();
}
