/* C17 (protocol layer): the real sm9_do_sign / sm9_do_verify, sm9_kem_encrypt / sm9_kem_decrypt, sm9_exch_step_1A/1B/2A and
 * the key extraction of src/sm9_key.c over the ideal bilinear group M7 (models/sm9_ideal.c): every master secret, every
 * random draw, every value of H1/H2/KDF (random function of the hashed transcript), incl. the retry paths. */
#include <stdio.h>
#include <string.h>
#include <gmssl/sm9.h>
#include <gmssl/sm3.h>
#include "verif.h"
#ifndef SQ
#define SQ 13
#endif
#define PF SQ
#include "smallf.h"
#include "sm9_ideal.h"
static sf any_s(void) { sf a = nondet_u8(); ASSUME(a < SQ); return a; }
static sf h1_of(const char *id, uint8_t hid) { sm9_z256_t h; sm9_z256_hash1(h, id, 1, hid); return id_s(h); }
static char g_idA[1], g_idB[1];
static void ids(void) { g_idA[0] = (char)nondet_u8(); g_idB[0] = (char)nondet_u8(); }

/* ---- signatures ---- */
static void sign_keys(SM9_SIGN_MASTER_KEY *msk, sf ks) { memset(msk, 0, sizeof(*msk)); id_ws(msk->ks, ks); id_wp2(&msk->Ppubs, ks); }
static sf h2_of(uint8_t m, sf w)
{
	SM9_SIGN_CTX c; sm9_z256_fp12_t W; uint8_t wbuf[384], ct1[4] = {0, 0, 0, 1}, ct2[4] = {0, 0, 0, 2}, Ha[64]; SM3_CTX t; sm9_z256_t h;
	sm9_verify_init(&c); sm9_verify_update(&c, &m, 1);
	id_wgt(W, w); sm9_z256_fp12_to_bytes(W, wbuf);
	sm3_update(&c.sm3_ctx, wbuf, 384); t = c.sm3_ctx;
	sm3_update(&c.sm3_ctx, ct1, 4); sm3_finish(&c.sm3_ctx, Ha);
	sm3_update(&t, ct2, 4); sm3_finish(&t, Ha + 32);
	sm9_z256_modn_from_hash(h, Ha);
	return id_s(h);
}
void h_sign_verify(void)
{
	ids();
	sf ks = any_s(); ASSUME(ks != 0);
	SM9_SIGN_MASTER_KEY msk; SM9_SIGN_KEY key; SM9_SIGN_CTX sc, vc; SM9_SIGNATURE sig; uint8_t m = nondet_u8();
	sign_keys(&msk, ks);
	sf h1 = h1_of(g_idA, SM9_HID_SIGN);
	int r = sm9_sign_master_key_extract_key(&msk, g_idA, 1, &key);
	CHECK((r == 1) == (sf_add(h1, ks) != 0), "key extraction succeeds unless H1(ID) + ks = 0");
	if (r != 1) return;
	sf ds = sf_mul(ks, sf_inv(sf_add(h1, ks)));
	CHECK(id_p1(&key.ds) == ds && id_p2(&key.Ppubs) == ks, "ds = [ks (H1(ID) + ks)^-1] P1");
	sm9_sign_init(&sc); sm9_sign_update(&sc, &m, 1);
	memset(&sig, 0, sizeof(sig));
	r = sm9_do_sign(&key, &sc.sm3_ctx, &sig);
	CHECK(r == 1, "signing succeeds");
	/* the signature equations for the last nonce drawn */
	CHECK(g_nrnd >= 1, "a nonce was drawn");
	sf rr = g_rnd[g_nrnd - 1], w = sf_mul(ks, rr), h = id_s(sig.h);
	CHECK(h == h2_of(m, w), "h = H2(M || g^r) for the nonce of the final attempt");
	CHECK(sf_sub(rr, h) != 0, "l = r - h != 0");
	CHECK(id_p1(&sig.S) == sf_mul(sf_sub(rr, h), ds), "S = [r - h] ds");
	/* and it verifies */
	sm9_verify_init(&vc); sm9_verify_update(&vc, &m, 1);
	SM9_SIGN_MASTER_KEY mpk; memset(&mpk, 0, sizeof(mpk)); mpk.Ppubs = msk.Ppubs;
	CHECK(sm9_do_verify(&mpk, g_idA, 1, &vc.sm3_ctx, &sig) == 1, "the signature verifies under the master public key and the signer's identity");
	if (g_nrnd == 2) V_COVER("retry path (l = 0 on the first attempt)");
	V_REACH();
}
void h_verify_sound(void)
{
	ids();
	sf ks = any_s(), s = any_s(), h = any_s(); ASSUME(ks != 0); uint8_t m = nondet_u8();
	SM9_SIGN_MASTER_KEY mpk; SM9_SIGN_CTX vc; SM9_SIGNATURE sig;
	sign_keys(&mpk, ks); id_ws(mpk.ks, 0);
	memset(&sig, 0, sizeof(sig)); id_ws(sig.h, h); id_wp1(&sig.S, s);
	sm9_verify_init(&vc); sm9_verify_update(&vc, &m, 1);
	int r = sm9_do_verify(&mpk, g_idA, 1, &vc.sm3_ctx, &sig);
	/* w' = e(S, [h1]P2 + Ppubs) * e(P1, Ppubs)^h */
	sf h1 = h1_of(g_idA, SM9_HID_SIGN);
	sf w = sf_add(sf_mul(s, sf_add(h1, ks)), sf_mul(ks, h));
	CHECK(r == 0 || r == 1, "verdict is 0 or 1");
	CHECK((r == 1) == (h2_of(m, w) == h), "accepts exactly when h = H2(M || e(S, [H1(ID)]P2 + Ppubs) e(P1, Ppubs)^h)");
	if (r == 1) V_COVER("accepted");
	V_REACH();
}
/* a signature made for identity A and message m, presented for identity B or message m2: acceptance needs a fresh hash value to hit h */
void h_verify_binding(void)
{
	ids();
	sf ks = any_s(); ASSUME(ks != 0);
	SM9_SIGN_MASTER_KEY msk; SM9_SIGN_KEY key; SM9_SIGN_CTX sc; SM9_SIGNATURE sig; uint8_t m = nondet_u8();
	sign_keys(&msk, ks);
	ASSUME(sm9_sign_master_key_extract_key(&msk, g_idA, 1, &key) == 1);
	sm9_sign_init(&sc); sm9_sign_update(&sc, &m, 1);
	ASSUME(sm9_do_sign(&key, &sc.sm3_ctx, &sig) == 1);
	sf rr = g_rnd[g_nrnd - 1], w = sf_mul(ks, rr), h = id_s(sig.h), s = id_p1(&sig.S);
	sf h1b = h1_of(g_idB, SM9_HID_SIGN);
	sf wb = sf_add(sf_mul(s, sf_add(h1b, ks)), sf_mul(ks, h));      /* the w' a verifier computes for identity B */
	if (h1b != h1_of(g_idA, SM9_HID_SIGN)) CHECK(wb != w, "under an identity with a different H1 value the verifier's w' differs from the signer's w");
	V_REACH();
}
/* ---- key encapsulation ---- */
static void enc_keys(SM9_ENC_MASTER_KEY *msk, sf ke) { memset(msk, 0, sizeof(*msk)); id_ws(msk->ke, ke); id_wp1(&msk->Ppube, ke); }
void h_kem(void)
{
	ids();
	sf ke = any_s(); ASSUME(ke != 0);
	SM9_ENC_MASTER_KEY msk, mpk; SM9_ENC_KEY key; SM9_Z256_POINT C; uint8_t ka[ID_KLEN], kb[ID_KLEN];
	enc_keys(&msk, ke); mpk = msk; id_ws(mpk.ke, 0);
	sf h1 = h1_of(g_idB, SM9_HID_ENC);
	int r = sm9_enc_master_key_extract_key(&msk, g_idB, 1, &key);
	CHECK((r == 1) == (sf_add(h1, ke) != 0), "key extraction succeeds unless H1(ID) + ke = 0");
	if (r != 1) return;
	CHECK(id_p2(&key.de) == sf_mul(ke, sf_inv(sf_add(h1, ke))), "de = [ke (H1(ID) + ke)^-1] P2");
	r = sm9_kem_encrypt(&mpk, g_idB, 1, ID_KLEN, ka, &C);
	CHECK(r == 1, "encapsulation succeeds");
	sf rr = g_rnd[g_nrnd - 1];
	CHECK(id_p1(&C) == sf_mul(rr, sf_add(h1, ke)), "C = [r](H1(ID) P1 + Ppube) for the nonce of the final attempt");
	int nz = 0; for (int i = 0; i < ID_KLEN; i++) if (ka[i]) nz = 1;
	CHECK(nz, "K is not all zero");
	r = sm9_kem_decrypt(&key, g_idB, 1, &C, ID_KLEN, kb);
	CHECK(r == 1, "decapsulation with the identity's key succeeds");
	for (int i = 0; i < ID_KLEN; i++) CHECK(ka[i] == kb[i], "both sides derive the same K");
	if (g_nrnd == 2) V_COVER("retry path (K = 0 on the first attempt)");
	V_REACH();
}
/* ---- key exchange ---- */
void h_exch(void)
{
	ids();
	sf ke = any_s(); ASSUME(ke != 0);
	SM9_EXCH_MASTER_KEY msk, mpk; SM9_EXCH_KEY keyA, keyB; SM9_Z256_POINT RA, RB; sm9_z256_t rA; uint8_t ska[ID_KLEN], skb[ID_KLEN];
	enc_keys(&msk, ke); mpk = msk; id_ws(mpk.ke, 0);
	ASSUME(sm9_exch_master_key_extract_key(&msk, g_idA, 1, &keyA) == 1);
	ASSUME(sm9_exch_master_key_extract_key(&msk, g_idB, 1, &keyB) == 1);
	sf h1a = h1_of(g_idA, SM9_HID_EXCH), h1b = h1_of(g_idB, SM9_HID_EXCH);
	CHECK(sm9_exch_step_1A(&mpk, g_idB, 1, &RA, rA) == 1, "step 1A succeeds");
#ifdef FRESH
	CHECK(g_nrnd == 1 && id_s(rA) == g_rnd[0], "A's ephemeral secret is the value drawn from the entropy source");
	CHECK(id_p1(&RA) == sf_mul(g_rnd[0], sf_add(h1b, ke)), "RA = [rA](H1(ID_B) P1 + Ppube)");
#endif
	int n0 = g_nrnd;
	CHECK(sm9_exch_step_1B(&mpk, g_idA, 1, g_idB, 1, &keyB, &RA, &RB, skb, ID_KLEN) == 1, "step 1B succeeds");
#ifdef FRESH
	CHECK(g_nrnd > n0 && id_p1(&RB) == sf_mul(g_rnd[g_nrnd - 1], sf_add(h1a, ke)), "RB = [rB](H1(ID_A) P1 + Ppube) for the value B drew from the entropy source");
#else
	int q0 = g_kdf_queries;
	CHECK(sm9_exch_step_2A(&mpk, g_idA, 1, g_idB, 1, &keyA, rA, &RA, &RB, ska, ID_KLEN) == 1, "step 2A succeeds");
	for (int i = 0; i < ID_KLEN; i++) CHECK(ska[i] == skb[i], "both parties derive the same key");
	CHECK(g_kdf_queries == q0 + 1, "step 2A evaluates the KDF once");
	if (g_nrnd == 3) V_COVER("retry path in step 1B");
#endif
	V_REACH();
}
/* step 2A on an untrusted RB (and any rA, RA): terminates after one KDF evaluation, and a reported success comes with a non-zero key */
void h_exch_2A_untrusted(void)
{
	ids();
	sf ke = any_s(); ASSUME(ke != 0);
	SM9_EXCH_MASTER_KEY msk, mpk; SM9_EXCH_KEY keyA; SM9_Z256_POINT RA, RB; sm9_z256_t rA; uint8_t ska[ID_KLEN];
	enc_keys(&msk, ke); mpk = msk; id_ws(mpk.ke, 0);
	ASSUME(sm9_exch_master_key_extract_key(&msk, g_idA, 1, &keyA) == 1);
	id_ws(rA, any_s()); id_wp1(&RA, any_s()); id_wp1(&RB, any_s());
	int r = sm9_exch_step_2A(&mpk, g_idA, 1, g_idB, 1, &keyA, rA, &RA, &RB, ska, ID_KLEN);
	CHECK(g_kdf_queries == 1, "step 2A evaluates the KDF exactly once");
	CHECK(r == 1 || r == -1, "step 2A returns 1 or -1");
	int nz = 0; for (int i = 0; i < ID_KLEN; i++) if (ska[i]) nz = 1;
	CHECK((r == 1) == nz, "success is reported exactly when the derived key is not all zero");
	if (r == 1) V_COVER("key derived"); else V_COVER("all-zero key refused");
	V_REACH();
}
/* ---- C18: the randomised SM9 operations fail closed when the entropy source fails at draw number g_rnd_fail_at ---- */
void h_fail_closed(void)
{
	ids();
	sf k = any_s(); ASSUME(k != 0);
	g_rnd_fail_at = nondet_bool() ? 0 : 1;
#if OP == 0
	SM9_SIGN_MASTER_KEY msk; SM9_SIGN_KEY key; SM9_SIGN_CTX sc; SM9_SIGNATURE sig; uint8_t m = nondet_u8();
	sign_keys(&msk, k);
	ASSUME(sm9_sign_master_key_extract_key(&msk, g_idA, 1, &key) == 1);
	sm9_sign_init(&sc); sm9_sign_update(&sc, &m, 1);
	int r = sm9_do_sign(&key, &sc.sm3_ctx, &sig);
#elif OP == 1
	SM9_ENC_MASTER_KEY mpk; SM9_Z256_POINT C; uint8_t ka[ID_KLEN];
	enc_keys(&mpk, k); id_ws(mpk.ke, 0);
	int r = sm9_kem_encrypt(&mpk, g_idB, 1, ID_KLEN, ka, &C);
#elif OP == 2
	SM9_EXCH_MASTER_KEY mpk; SM9_Z256_POINT RA; sm9_z256_t rA;
	enc_keys(&mpk, k); id_ws(mpk.ke, 0); g_rnd_fail_at = 0;
	int r = sm9_exch_step_1A(&mpk, g_idB, 1, &RA, rA);
#else
	SM9_EXCH_MASTER_KEY msk, mpk; SM9_EXCH_KEY keyB; SM9_Z256_POINT RA, RB; uint8_t skb[ID_KLEN];
	enc_keys(&msk, k); mpk = msk; id_ws(mpk.ke, 0);
	ASSUME(sm9_exch_master_key_extract_key(&msk, g_idB, 1, &keyB) == 1);
	id_wp1(&RA, any_s());
	int r = sm9_exch_step_1B(&mpk, g_idA, 1, g_idB, 1, &keyB, &RA, &RB, skb, ID_KLEN);
#endif
	if (g_nrnd > g_rnd_fail_at) { CHECK(r != 1, "the operation reports failure when a random draw failed"); V_COVER("entropy failure reached"); }
	else CHECK(r == 1, "the operation succeeds when the failing draw was not needed");
	V_REACH();
}
