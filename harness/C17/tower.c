/* C17 (field tower and groups): the real Fp2 / Fp4 / Fp12 formulas and the real G1 / G2 Jacobian point formulas of
 * src/sm9_z256.c, executed over a small prime field F_PF (model M4'', models/sm9_smallp.c) and compared with the
 * definitions: Fp2 = Fp[u]/(u^2 + 2), Fp4 = Fp2[v]/(v^2 - u), Fp12 = Fp4[w]/(w^3 - v), schoolbook products, and the affine
 * chord-tangent law on y^2 = x^3 + b.  The formulas are polynomial identities that do not depend on the size of p; what a
 * small field cannot show is the 256-bit Fp layer itself (limb obligations C17.limb.*) and the p-specific Frobenius constants. */
#include <stdio.h>
#include <string.h>
#include <gmssl/sm9_z256.h>
#include "verif.h"
#include "smallf.h"
#ifndef PART
#define PART 0
#endif
typedef sf sv;
extern const sm9_z256_t SM9_Z256_MODP_MONT_ONE, SM9_Z256_MODP_MONT_FIVE, SM9_Z256_MODP_2e512;
extern const sm9_z256_fp2_t SM9_Z256_FP2_MONT_5U;          /* static in the unit; the unit is built with -Dstatic= */
extern const sm9_z256_fp4_t SM9_Z256_FP4_MONT_ONE;
static sv g_b0, g_b1;                                       /* curve coefficient: G1 y^2 = x^3 + b0, G2 y^2 = x^3 + (b0 + b1 u) */
static void setw(const uint64_t *c, sv v) { uint64_t *w = (uint64_t *)c; w[0] = v; w[1] = w[2] = w[3] = 0; }
static sv any(void) { sv a = nondet_u8(); ASSUME(a < PF); return a; }
static void setup(void)
{
	setw(SM9_Z256_MODP_MONT_ONE, 2 % PF);
	setw(SM9_Z256_MODP_2e512, 4 % PF);
	setw(SM9_Z256_FP4_MONT_ONE[0][0], 2 % PF);
	g_b0 = any(); g_b1 = any();
}
/* ---- reference arithmetic, plain (non-Montgomery) representation ---- */
#define fadd sf_add
#define fsub sf_sub
#define fmul sf_mul
#define finv sf_inv
typedef struct { sv c[2]; } F2;
typedef struct { F2 c[2]; } F4;
static F2 f2(sv a, sv b) { F2 r; r.c[0] = a; r.c[1] = b; return r; }
static F2 f2_add(F2 a, F2 b) { return f2(fadd(a.c[0], b.c[0]), fadd(a.c[1], b.c[1])); }
static F2 f2_sub(F2 a, F2 b) { return f2(fsub(a.c[0], b.c[0]), fsub(a.c[1], b.c[1])); }
static F2 f2_neg(F2 a) { return f2(sf_neg(a.c[0]), sf_neg(a.c[1])); }
static F2 f2_mul(F2 a, F2 b) { sv t = fmul(a.c[1], b.c[1]); return f2(fsub(fmul(a.c[0], b.c[0]), fadd(t, t)), fadd(fmul(a.c[0], b.c[1]), fmul(a.c[1], b.c[0]))); }   /* u^2 = -2 */
static F2 f2_mulu(F2 a) { return f2(sf_neg(fadd(a.c[1], a.c[1])), a.c[0]); }
static F2 f2_k(F2 a, sv k) { return f2(fmul(a.c[0], k), fmul(a.c[1], k)); }
static int f2_eq(F2 a, F2 b) { return a.c[0] == b.c[0] && a.c[1] == b.c[1]; }
static int f2_is0(F2 a) { return a.c[0] == 0 && a.c[1] == 0; }
static F2 f2_inv(F2 a) { sv t = fmul(a.c[1], a.c[1]); sv n = finv(fadd(fmul(a.c[0], a.c[0]), fadd(t, t))); return f2(fmul(a.c[0], n), fmul(sf_neg(a.c[1]), n)); }
static F4 f4(F2 a, F2 b) { F4 r; r.c[0] = a; r.c[1] = b; return r; }
static F4 f4_add(F4 a, F4 b) { return f4(f2_add(a.c[0], b.c[0]), f2_add(a.c[1], b.c[1])); }
static F4 f4_sub(F4 a, F4 b) { return f4(f2_sub(a.c[0], b.c[0]), f2_sub(a.c[1], b.c[1])); }
static F4 f4_mul(F4 a, F4 b) { return f4(f2_add(f2_mul(a.c[0], b.c[0]), f2_mulu(f2_mul(a.c[1], b.c[1]))), f2_add(f2_mul(a.c[0], b.c[1]), f2_mul(a.c[1], b.c[0]))); }   /* v^2 = u */
static F4 f4_mulv(F4 a) { return f4(f2_mulu(a.c[1]), a.c[0]); }
static int f4_eq(F4 a, F4 b) { return f2_eq(a.c[0], b.c[0]) && f2_eq(a.c[1], b.c[1]); }
/* ---- conversion library <-> reference ---- */
static sv rd(const uint64_t a[4]) { CHECK(a[1] == 0 && a[2] == 0 && a[3] == 0 && a[0] < PF, "library result reduced"); return sf_haf((sv)a[0]); }
static void wr(uint64_t r[4], sv v) { r[0] = fadd(v, v); r[1] = r[2] = r[3] = 0; }
static F2 rd2(const sm9_z256_fp2_t a) { return f2(rd(a[0]), rd(a[1])); }
static void wr2(sm9_z256_fp2_t r, F2 v) { wr(r[0], v.c[0]); wr(r[1], v.c[1]); }
static F4 rd4(const sm9_z256_fp4_t a) { return f4(rd2(a[0]), rd2(a[1])); }
static void wr4(sm9_z256_fp4_t r, F4 v) { wr2(r[0], v.c[0]); wr2(r[1], v.c[1]); }
static F2 any2(void) { sv a = any(), b = any(); return f2(a, b); }
static F4 any4(void) { F2 a = any2(), b = any2(); return f4(a, b); }

/* ---------------- Fp2 ---------------- */
void h_fp2_ring(void)
{
	setup();
	F2 a = any2(), b = any2(); sv k = any();
	sm9_z256_fp2_t A, B, R; sm9_z256_t K;
	wr2(A, a); wr2(B, b); wr(K, k);
	sm9_z256_fp2_add(R, A, B); CHECK(f2_eq(rd2(R), f2_add(a, b)), "fp2_add");
	sm9_z256_fp2_sub(R, A, B); CHECK(f2_eq(rd2(R), f2_sub(a, b)), "fp2_sub");
	sm9_z256_fp2_neg(R, A); CHECK(f2_eq(rd2(R), f2_neg(a)), "fp2_neg");
	sm9_z256_fp2_dbl(R, A); CHECK(f2_eq(rd2(R), f2_add(a, a)), "fp2_dbl");
	sm9_z256_fp2_tri(R, A); CHECK(f2_eq(rd2(R), f2_add(a, f2_add(a, a))), "fp2_tri");
	sm9_z256_fp2_haf(R, A); CHECK(f2_eq(f2_add(rd2(R), rd2(R)), a), "fp2_haf");
	sm9_z256_fp2_mul(R, A, B); CHECK(f2_eq(rd2(R), f2_mul(a, b)), "fp2_mul = schoolbook product mod u^2 + 2");
	sm9_z256_fp2_mul_u(R, A, B); CHECK(f2_eq(rd2(R), f2_mulu(f2_mul(a, b))), "fp2_mul_u = a b u");
	sm9_z256_fp2_mul_fp(R, A, K); CHECK(f2_eq(rd2(R), f2_k(a, k)), "fp2_mul_fp");
	sm9_z256_fp2_sqr(R, A); CHECK(f2_eq(rd2(R), f2_mul(a, a)), "fp2_sqr");
	sm9_z256_fp2_sqr_u(R, A); CHECK(f2_eq(rd2(R), f2_mulu(f2_mul(a, a))), "fp2_sqr_u = a^2 u");
	sm9_z256_fp2_conjugate(R, A); CHECK(f2_eq(rd2(R), f2(a.c[0], sf_neg(a.c[1]))), "fp2_conjugate");
	sm9_z256_fp2_copy(R, A); sm9_z256_fp2_a_mul_u(R, R); CHECK(f2_eq(rd2(R), f2_mulu(a)), "fp2_a_mul_u (in place)");
	sm9_z256_fp2_copy(R, A); sm9_z256_fp2_mul(R, R, B); CHECK(f2_eq(rd2(R), f2_mul(a, b)), "fp2_mul in place (r = a)");
	sm9_z256_fp2_copy(R, B); sm9_z256_fp2_mul(R, A, R); CHECK(f2_eq(rd2(R), f2_mul(a, b)), "fp2_mul in place (r = b)");
	sm9_z256_fp2_copy(R, A); sm9_z256_fp2_sqr(R, R); CHECK(f2_eq(rd2(R), f2_mul(a, a)), "fp2_sqr in place");
	CHECK(!!sm9_z256_fp2_is_zero(A) == f2_is0(a), "fp2_is_zero");
	CHECK(!!sm9_z256_fp2_is_one(A) == (a.c[0] == 1 && a.c[1] == 0), "fp2_is_one (Montgomery one)");
	CHECK(!!sm9_z256_fp2_equ(A, B) == f2_eq(a, b), "fp2_equ");
	sm9_z256_fp2_set_one(R); CHECK(f2_eq(rd2(R), f2(1, 0)), "fp2_set_one");
	V_REACH();
}
void h_fp2_inv(void)
{
	setup();
	F2 a = any2(), b = any2(); ASSUME(!f2_is0(a));
	sm9_z256_fp2_t A, B, R;
	wr2(A, a); wr2(B, b);
	sm9_z256_fp2_inv(R, A);
	CHECK(f2_eq(f2_mul(rd2(R), a), f2(1, 0)), "fp2_inv: a * a^-1 = 1 (all three branches: a0 = 0, a1 = 0, general)");
	sm9_z256_fp2_div(R, B, A);
	CHECK(f2_eq(f2_mul(rd2(R), a), b), "fp2_div: (b / a) * a = b");
	sm9_z256_fp2_copy(R, A); sm9_z256_fp2_inv(R, R);
	CHECK(f2_eq(f2_mul(rd2(R), a), f2(1, 0)), "fp2_inv in place");
	V_REACH();
}
/* ---------------- Fp4 ---------------- */
void h_fp4_ring(void)
{
	setup();
	F4 a = any4(), b = any4(); sv k = any(); F2 k2 = any2();
	sm9_z256_fp4_t A, B, R; sm9_z256_t K; sm9_z256_fp2_t K2;
	wr4(A, a); wr4(B, b); wr(K, k); wr2(K2, k2);
#if PART == 0
	sm9_z256_fp4_mul(R, A, B); CHECK(f4_eq(rd4(R), f4_mul(a, b)), "fp4_mul = schoolbook product mod v^2 - u");
	sm9_z256_fp4_copy(R, A); sm9_z256_fp4_mul(R, R, B); CHECK(f4_eq(rd4(R), f4_mul(a, b)), "fp4_mul in place");
#elif PART == 1
	sm9_z256_fp4_mul_v(R, A, B); CHECK(f4_eq(rd4(R), f4_mulv(f4_mul(a, b))), "fp4_mul_v = a b v");
	sm9_z256_fp4_sqr(R, A); CHECK(f4_eq(rd4(R), f4_mul(a, a)), "fp4_sqr");
	sm9_z256_fp4_sqr_v(R, A); CHECK(f4_eq(rd4(R), f4_mulv(f4_mul(a, a))), "fp4_sqr_v = a^2 v");
	sm9_z256_fp4_copy(R, A); sm9_z256_fp4_sqr(R, R); CHECK(f4_eq(rd4(R), f4_mul(a, a)), "fp4_sqr in place");
#else
	sm9_z256_fp4_add(R, A, B); CHECK(f4_eq(rd4(R), f4_add(a, b)), "fp4_add");
	sm9_z256_fp4_sub(R, A, B); CHECK(f4_eq(rd4(R), f4_sub(a, b)), "fp4_sub");
	sm9_z256_fp4_neg(R, A); CHECK(f4_eq(f4_add(rd4(R), a), f4(f2(0, 0), f2(0, 0))), "fp4_neg");
	sm9_z256_fp4_dbl(R, A); CHECK(f4_eq(rd4(R), f4_add(a, a)), "fp4_dbl");
	sm9_z256_fp4_haf(R, A); CHECK(f4_eq(f4_add(rd4(R), rd4(R)), a), "fp4_haf");
	sm9_z256_fp4_mul_fp(R, A, K); CHECK(f4_eq(rd4(R), f4(f2_k(a.c[0], k), f2_k(a.c[1], k))), "fp4_mul_fp");
	sm9_z256_fp4_mul_fp2(R, A, K2); CHECK(f4_eq(rd4(R), f4(f2_mul(a.c[0], k2), f2_mul(a.c[1], k2))), "fp4_mul_fp2");
	sm9_z256_fp4_conjugate(R, A); CHECK(f4_eq(rd4(R), f4(a.c[0], f2_neg(a.c[1]))), "fp4_conjugate");
	sm9_z256_fp4_copy(R, A); sm9_z256_fp4_a_mul_v(R, R); CHECK(f4_eq(rd4(R), f4_mulv(a)), "fp4_a_mul_v (in place)");
	CHECK(!!sm9_z256_fp4_is_zero(A) == (f2_is0(a.c[0]) && f2_is0(a.c[1])), "fp4_is_zero");
	CHECK(!!sm9_z256_fp4_equ(A, B) == f4_eq(a, b), "fp4_equ");
#endif
	V_REACH();
}
void h_fp4_inv(void)
{
	setup();
	F4 a = any4();
	F2 norm = f2_sub(f2_mul(a.c[0], a.c[0]), f2_mulu(f2_mul(a.c[1], a.c[1])));   /* a * conj(a) = a0^2 - u a1^2 */
	ASSUME(!f2_is0(norm));                                                        /* a invertible (every a != 0 when v^2 - u is irreducible) */
	sm9_z256_fp4_t A, R;
	wr4(A, a);
	sm9_z256_fp4_inv(R, A);
	CHECK(f4_eq(f4_mul(rd4(R), a), f4(f2(1, 0), f2(0, 0))), "fp4_inv: a * a^-1 = 1");
	V_REACH();
}
/* ---------------- G1 : y^2 = x^3 + b over Fp ---------------- */
typedef struct { int inf; sv x, y; } AFF;
static int on1(sv x, sv y) { return fmul(y, y) == fadd(fmul(fmul(x, x), x), g_b0); }
static AFF any_p1(void) { AFF P; P.inf = nondet_bool(); P.x = any(); P.y = any(); if (!P.inf) { ASSUME(on1(P.x, P.y)); ASSUME(P.y != 0); } return P; }
static void to_j1(SM9_Z256_POINT *J, AFF P, int affine)
{
	memset(J, 0, sizeof(*J));
	sv z = any(); ASSUME(z != 0); if (affine) z = 1;
	if (P.inf) { wr(J->X, any()); wr(J->Y, any()); return; }     /* any (X, Y, 0) */
	wr(J->X, fmul(P.x, fmul(z, z))); wr(J->Y, fmul(P.y, fmul(fmul(z, z), z))); wr(J->Z, z);
}
static AFF from_j1(const SM9_Z256_POINT *J)
{
	AFF P; sv Z = rd(J->Z), X = rd(J->X), Y = rd(J->Y);
	if (Z == 0) { P.inf = 1; P.x = P.y = 0; return P; }
	sv zi = finv(Z); P.inf = 0; P.x = fmul(X, fmul(zi, zi)); P.y = fmul(Y, fmul(fmul(zi, zi), zi));
	return P;
}
static AFF ref_add1(AFF P, AFF Q)
{
	AFF R; R.inf = 0; R.x = R.y = 0; sv lam;
	if (P.inf) return Q;
	if (Q.inf) return P;
	if (P.x == Q.x) {
		if (P.y != Q.y || P.y == 0) { R.inf = 1; return R; }
		lam = fmul(fmul(3 % PF, fmul(P.x, P.x)), finv(fadd(P.y, P.y)));
	} else lam = fmul(fsub(Q.y, P.y), finv(fsub(Q.x, P.x)));
	R.x = fsub(fsub(fmul(lam, lam), P.x), Q.x);
	R.y = fsub(fmul(lam, fsub(P.x, R.x)), P.y);
	return R;
}
static int aeq(AFF a, AFF b) { return a.inf ? b.inf : (!b.inf && a.x == b.x && a.y == b.y); }
void h_g1(void)
{
	setup(); ASSUME(g_b0 != 0); setw(SM9_Z256_MODP_MONT_FIVE, fadd(g_b0, g_b0));
	AFF p = any_p1(), q = any_p1();
	SM9_Z256_POINT P, Q, R;
	to_j1(&P, p, 0); to_j1(&Q, q, 0);
#if PART == 0
	sm9_z256_point_dbl(&R, &P); CHECK(aeq(from_j1(&R), ref_add1(p, p)), "point_dbl = 2P");
	R = P; sm9_z256_point_dbl(&R, &R); CHECK(aeq(from_j1(&R), ref_add1(p, p)), "point_dbl in place");
	sm9_z256_point_neg(&R, &P); { AFF n = p; n.y = sf_neg(p.y); CHECK(aeq(from_j1(&R), n), "point_neg"); }
	CHECK(!!sm9_z256_point_is_at_infinity(&P) == p.inf, "is_at_infinity");
	if (!p.inf) {
		sm9_z256_t x, y; sm9_z256_point_get_xy(&P, x, y);
		CHECK(x[0] == (uint64_t)p.x && y[0] == (uint64_t)p.y && x[1] == 0 && y[1] == 0, "point_get_xy = affine coordinates (not Montgomery) from every representative");
		CHECK(sm9_z256_point_is_on_curve(&P) == 1, "is_on_curve accepts every representative of a curve point");
		if (!q.inf) CHECK(!!sm9_z256_point_equ(&P, &Q) == aeq(p, q), "point_equ compares the points, not the representatives");
	}
#elif PART == 1
	sm9_z256_point_add(&R, &P, &Q); CHECK(aeq(from_j1(&R), ref_add1(p, q)), "point_add = P + Q (incl. P = Q, P = -Q, infinity on either side)");
#elif PART == 2
	{ AFF n = q; n.y = sf_neg(q.y); sm9_z256_point_sub(&R, &P, &Q); CHECK(aeq(from_j1(&R), ref_add1(p, n)), "point_sub = P - Q"); }
#elif PART == 3
	/* mixed addition as used by mul_generator: P finite, Q affine, P != +-Q (the caller's precondition) */
	ASSUME(!p.inf && !q.inf && p.x != q.x);
	SM9_Z256_AFFINE_POINT QA; memcpy(QA.X, Q.X, 32); memcpy(QA.Y, Q.Y, 32);
	to_j1(&Q, q, 1); memcpy(QA.X, Q.X, 32); memcpy(QA.Y, Q.Y, 32);
	sm9_z256_point_add_affine(&R, &P, &QA); CHECK(aeq(from_j1(&R), ref_add1(p, q)), "point_add_affine = P + Q for P != +-Q");
	{ AFF n = q; n.y = sf_neg(q.y); sm9_z256_point_sub_affine(&R, &P, &QA); CHECK(aeq(from_j1(&R), ref_add1(p, n)), "point_sub_affine = P - Q"); }
#else
	/* is_on_curve rejects what is not on the curve */
	sv x = any(), y = any(), z = any(); ASSUME(z != 0);
	wr(P.X, fmul(x, fmul(z, z))); wr(P.Y, fmul(y, fmul(fmul(z, z), z))); wr(P.Z, z);
	CHECK((sm9_z256_point_is_on_curve(&P) == 1) == on1(x, y), "is_on_curve decides y^2 = x^3 + b for every (X, Y, Z != 0)");
#endif
	V_REACH();
}
/* ---------------- G2 : y^2 = x^3 + b' over Fp2 ---------------- */
typedef struct { int inf; F2 x, y; } AFF2;
static int on2(F2 x, F2 y) { return f2_eq(f2_mul(y, y), f2_add(f2_mul(f2_mul(x, x), x), f2(g_b0, g_b1))); }
static AFF2 any_p2(void) { AFF2 P; P.inf = nondet_bool(); P.x = any2(); P.y = any2(); if (!P.inf) { ASSUME(on2(P.x, P.y)); ASSUME(!f2_is0(P.y)); } return P; }
static void to_j2(SM9_Z256_TWIST_POINT *J, AFF2 P, int affine)
{
	memset(J, 0, sizeof(*J));
	F2 z = any2(); ASSUME(!f2_is0(z)); if (affine) z = f2(1, 0);
	if (P.inf) { wr2(J->X, any2()); wr2(J->Y, any2()); return; }
	F2 z2 = f2_mul(z, z);
	wr2(J->X, f2_mul(P.x, z2)); wr2(J->Y, f2_mul(P.y, f2_mul(z2, z))); wr2(J->Z, z);
}
static AFF2 from_j2(const SM9_Z256_TWIST_POINT *J)
{
	AFF2 P; F2 Z = rd2(J->Z), X = rd2(J->X), Y = rd2(J->Y);
	if (f2_is0(Z)) { P.inf = 1; P.x = P.y = f2(0, 0); return P; }
	F2 zi = f2_inv(Z), zi2 = f2_mul(zi, zi); P.inf = 0; P.x = f2_mul(X, zi2); P.y = f2_mul(Y, f2_mul(zi2, zi));
	return P;
}
static AFF2 ref_add2(AFF2 P, AFF2 Q)
{
	AFF2 R; R.inf = 0; R.x = R.y = f2(0, 0); F2 lam;
	if (P.inf) return Q;
	if (Q.inf) return P;
	if (f2_eq(P.x, Q.x)) {
		if (!f2_eq(P.y, Q.y) || f2_is0(P.y)) { R.inf = 1; return R; }
		lam = f2_mul(f2_k(f2_mul(P.x, P.x), 3 % PF), f2_inv(f2_add(P.y, P.y)));
	} else lam = f2_mul(f2_sub(Q.y, P.y), f2_inv(f2_sub(Q.x, P.x)));
	R.x = f2_sub(f2_sub(f2_mul(lam, lam), P.x), Q.x);
	R.y = f2_sub(f2_mul(lam, f2_sub(P.x, R.x)), P.y);
	return R;
}
static int aeq2(AFF2 a, AFF2 b) { return a.inf ? b.inf : (!b.inf && f2_eq(a.x, b.x) && f2_eq(a.y, b.y)); }
void h_g2(void)
{
	setup(); ASSUME(g_b0 != 0 || g_b1 != 0);
	setw(SM9_Z256_FP2_MONT_5U[0], fadd(g_b0, g_b0)); setw(SM9_Z256_FP2_MONT_5U[1], fadd(g_b1, g_b1));
	AFF2 p = any_p2(), q = any_p2();
	SM9_Z256_TWIST_POINT P, Q, R;
	to_j2(&P, p, 0);
#if PART == 0
	sm9_z256_twist_point_dbl(&R, &P); CHECK(aeq2(from_j2(&R), ref_add2(p, p)), "twist_point_dbl = 2P");
	R = P; sm9_z256_twist_point_dbl(&R, &R); CHECK(aeq2(from_j2(&R), ref_add2(p, p)), "twist_point_dbl in place");
	sm9_z256_twist_point_neg(&R, &P); { AFF2 n = p; n.y = f2_neg(p.y); CHECK(aeq2(from_j2(&R), n), "twist_point_neg"); }
	CHECK(!!sm9_z256_twist_point_is_at_infinity(&P) == p.inf, "twist is_at_infinity");
	if (!p.inf) {
		sm9_z256_fp2_t x, y; sm9_z256_twist_point_get_xy(&P, x, y);
		CHECK(f2_eq(rd2(x), p.x) && f2_eq(rd2(y), p.y), "twist_point_get_xy = affine coordinates from every representative");
		CHECK(sm9_z256_twist_point_is_on_curve(&P) == 1, "twist is_on_curve accepts every representative of a curve point");
	}
#elif PART == 1
	to_j2(&Q, q, 0);
	sm9_z256_twist_point_add_full(&R, &P, &Q); CHECK(aeq2(from_j2(&R), ref_add2(p, q)), "twist_point_add_full = P + Q (incl. P = Q, P = -Q, infinity on either side)");
#elif PART == 2
	to_j2(&Q, q, 1);      /* mixed addition: second operand affine (Z = 1), as in the Miller loop */
	sm9_z256_twist_point_add(&R, &P, &Q); CHECK(aeq2(from_j2(&R), ref_add2(p, q)), "twist_point_add = P + Q for affine Q (incl. P = Q, P = -Q, infinity)");
#elif PART == 3
	to_j2(&Q, q, 0);
	{ AFF2 n = q; n.y = f2_neg(q.y); sm9_z256_twist_point_sub(&R, &P, &Q); CHECK(aeq2(from_j2(&R), ref_add2(p, n)), "twist_point_sub = P - Q"); }
#else
	to_j2(&Q, q, 0);
	if (!p.inf && !q.inf) CHECK(!!sm9_z256_twist_point_equ(&P, &Q) == aeq2(p, q), "twist_point_equ compares the points, not the representatives");
	F2 x = any2(), y = any2(), z = any2(); ASSUME(!f2_is0(z));
	F2 z2 = f2_mul(z, z);
	wr2(P.X, f2_mul(x, z2)); wr2(P.Y, f2_mul(y, f2_mul(z2, z))); wr2(P.Z, z);
	CHECK((sm9_z256_twist_point_is_on_curve(&P) == 1) == on2(x, y), "twist is_on_curve decides y^2 = x^3 + b' for every (X, Y, Z != 0)");
#endif
	V_REACH();
}
