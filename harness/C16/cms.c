/* C16: control-flow theorems of src/cms.c over abstract DER parts */
#include <stdio.h>
#include <string.h>
#include <gmssl/cms.h>
#include <gmssl/sm2.h>
#include <gmssl/sm3.h>
#include <gmssl/oid.h>
#include "verif.h"

int asn1_check(int expr) { return expr ? 1 : -1; }
#if defined(SIGNED)
/* ---- cms_signed_data_verify_from_der: >= 1 SignerInfo, each verified over H(content-info header || content) ---- */
#define NS 3
static uint8_t s_infos[NS]; static size_t s_n; static int s_verdict[NS]; static int s_calls; static int s_ver, s_dig, s_digcnt;
static uint8_t content[4]; static uint8_t hdr_bytes[6];
static const uint8_t *u_ptr[2]; static size_t u_len[2]; static int u_n; static const SM3_CTX *u_ctx; static const SM3_CTX *v_ctx; static int v_upd_before;
int cms_signed_data_from_der(int *version, int *digest_algors, size_t *digest_algors_cnt, size_t max_digest_algors,
	int *content_type, const uint8_t **pcontent, size_t *content_len, const uint8_t **certs, size_t *certs_len,
	const uint8_t **crls, size_t *crls_len, const uint8_t **signer_infos, size_t *signer_infos_len, const uint8_t **in, size_t *inlen)
{
	*version = s_ver; digest_algors[0] = s_dig; *digest_algors_cnt = (size_t)s_digcnt; *content_type = OID_cms_data;
	*pcontent = content; *content_len = 4; *certs = NULL; *certs_len = 0; *crls = NULL; *crls_len = 0;
	*signer_infos = s_infos; *signer_infos_len = s_n; *inlen = 0; return 1;
}
int cms_content_info_header_to_der(int content_type, size_t content_len, uint8_t **out, size_t *outlen)
{ __CPROVER_assert(content_type == OID_cms_data && content_len == 4, "header for the parsed content type and length"); memcpy(*out, hdr_bytes, 6); *out += 6; *outlen += 6; return 1; }
void sm3_init(SM3_CTX *c) { u_n = 0; u_ctx = c; }
void sm3_update(SM3_CTX *c, const uint8_t *d, size_t n) { if (c == u_ctx && u_n < 2) { u_ptr[u_n] = d; u_len[u_n] = n; } u_n++; }
int cms_signer_info_verify_from_der(const SM3_CTX *sm3_ctx, const uint8_t *certs, size_t certslen, const uint8_t **cert, size_t *certlen,
	const uint8_t **issuer, size_t *issuer_len, const uint8_t **serial, size_t *serial_len, const uint8_t **authed_attrs, size_t *authed_attrs_len,
	const uint8_t **unauthed_attrs, size_t *unauthed_attrs_len, const uint8_t **in, size_t *inlen)
{
	if (*inlen == 0) return -1;
	int i = (*in)[0]; __CPROVER_assert(i < NS, "idx");
	v_ctx = sm3_ctx; v_upd_before = u_n; s_calls++;
	(*in)++; (*inlen)--;
	return s_verdict[i];
}
void h_signed_verify(void)
{
	s_n = nondet_size(); ASSUME(s_n <= NS);
	for (int i = 0; i < NS; i++) { s_infos[i] = (uint8_t)i; int v = nondet_int(); ASSUME(v == 1 || v == 0 || v == -1); s_verdict[i] = v; }
	s_ver = nondet_int(); s_dig = nondet_int(); s_digcnt = nondet_int(); ASSUME(s_digcnt >= 1 && s_digcnt <= 4);
	int ct; const uint8_t *c, *certs, *crls, *si; size_t cl, certsl, crlsl, sil; uint8_t in[1] = {0}; const uint8_t *p = in; size_t l = 1;
	int ret = cms_signed_data_verify_from_der(NULL, 0, NULL, 0, &ct, &c, &cl, &certs, &certsl, &crls, &crlsl, &si, &sil, &p, &l);
	if (ret == 1) {
		V_COVER("signed data accepted");
		CHECK(s_n >= 1, "a SignedData without SignerInfo never verifies");
		CHECK(s_calls == (int)s_n, "every SignerInfo was verified");
		for (size_t i = 0; i < NS; i++) if (i < s_n) CHECK(s_verdict[i] == 1, "every SignerInfo verification succeeded");
		CHECK(s_ver == CMS_version_v1 && s_dig == OID_sm3 && s_digcnt == 1, "version 1, digest SM3 only");
		CHECK(v_ctx == u_ctx && v_upd_before == 2 && u_len[0] == 6 && u_ptr[1] == content && u_len[1] == 4, "signers are checked against H(content-info header || content)");
	}
	V_REACH();
}
#elif defined(SIGNSIDE)
/* ---- cms_signed_data_sign_to_der: what is hashed is exactly the ContentInfo that is emitted; SignerInfo i is made with signer i's key and certificate ---- */
#define DL 5
#define NSG 2
static uint8_t h_buf[64]; static size_t h_len; static const SM3_CTX *h_ctx; static int h_over;
void sm3_init(SM3_CTX *c) { h_ctx = c; h_len = 0; }
void sm3_update(SM3_CTX *c, const uint8_t *d, size_t n) { if (c != h_ctx || h_len + n > sizeof(h_buf)) { h_over = 1; return; } for (size_t i = 0; i < n; i++) h_buf[h_len + i] = d[i]; h_len += n; }
int x509_cert_get_issuer_and_serial_number(const uint8_t *a, size_t alen, const uint8_t **issuer, size_t *issuer_len, const uint8_t **serial, size_t *serial_len)
{ *issuer = a; *issuer_len = 1; *serial = a + 1; *serial_len = 1; return 1; }
static const SM2_KEY *a_key[NSG + 1]; static const uint8_t *a_issuer[NSG + 1]; static const SM3_CTX *a_ctx[NSG + 1]; static size_t a_hlen[NSG + 1]; static int a_n;
int cms_signer_infos_add_signer_info(uint8_t *d, size_t *dlen, size_t maxlen, const SM3_CTX *sm3_ctx, const SM2_KEY *sign_key,
	const uint8_t *issuer, size_t issuer_len, const uint8_t *serial_number, size_t serial_number_len,
	const uint8_t *authed_attrs, size_t authed_attrs_len, const uint8_t *unauthed_attrs, size_t unauthed_attrs_len)
{
	if (a_n < NSG + 1) { a_key[a_n] = sign_key; a_issuer[a_n] = issuer; a_ctx[a_n] = sm3_ctx; a_hlen[a_n] = h_len; }
	a_n++; d[*dlen] = 0x30; (*dlen)++;
	return 1;
}
int cms_implicit_signers_certs_to_der(int index, const CMS_CERTS_AND_KEY *signers, size_t signers_cnt, uint8_t **out, size_t *outlen) { return 1; }
int cms_digest_algors_to_der(const int *digest_algors, size_t digest_algors_cnt, uint8_t **out, size_t *outlen) { return 1; }
static void sign_side(int ct)
{
	SM2_KEY k[NSG]; uint8_t c[NSG][2]; CMS_CERTS_AND_KEY sg[NSG]; uint8_t data[DL], out[128], exp[64]; uint8_t *p = out, *q = exp; size_t outlen = 0, explen = 0;
	for (int i = 0; i < DL; i++) data[i] = nondet_u8();
	for (int i = 0; i < NSG; i++) { sg[i].certs = c[i]; sg[i].certs_len = 2; sg[i].sign_key = &k[i]; }
	int r = cms_signed_data_sign_to_der(sg, NSG, ct, data, DL, NULL, 0, &p, &outlen);
	CHECK(r == 1, "signing succeeds");
	CHECK(cms_content_info_to_der(ct, data, DL, &q, &explen) == 1, "ContentInfo encodes");
	CHECK(!h_over && h_len == explen, "the digest covers exactly as many bytes as the emitted ContentInfo has");
	for (size_t i = 0; i < sizeof(exp); i++) if (i < explen) CHECK(h_buf[i] == exp[i], "the digest input is the DER of the emitted ContentInfo (header and content)");
	CHECK(a_n == NSG, "one SignerInfo per signer");
	for (int i = 0; i < NSG; i++) {
		CHECK(a_key[i] == &k[i], "SignerInfo i is signed with signer i's key");
		CHECK(a_issuer[i] == c[i], "SignerInfo i names signer i's certificate");
		CHECK(a_ctx[i] == h_ctx && a_hlen[i] == explen, "every SignerInfo signs the digest of the whole ContentInfo");
	}
}
void h_sign_side(void)
{
	int ct = nondet_int();
	static const int types[] = { OID_cms_data, OID_cms_signed_data, OID_cms_enveloped_data, OID_cms_signed_and_enveloped_data, OID_cms_encrypted_data, OID_cms_key_agreement_info };
	int hit = 0;
	for (int i = 0; i < 6; i++) if (ct == types[i]) { sign_side(types[i]); hit = 1; break; }
	ASSUME(hit);
	V_REACH();
}
#elif defined(RCPT)
/* ---- cms_recipient_info_decrypt_from_der: decrypts only the RecipientInfo whose issuer AND serial equal the offered certificate's ---- */
static uint8_t r_issuer[3], r_serial[3]; static size_t r_il, r_sl; static int r_alg; static int d_calls, d_verdict;
int cms_recipient_info_from_der(int *version, const uint8_t **issuer, size_t *issuer_len, const uint8_t **serial_number, size_t *serial_number_len,
	int *pke_algor, const uint8_t **params, size_t *params_len, const uint8_t **enced_key, size_t *enced_key_len, const uint8_t **in, size_t *inlen)
{ static uint8_t ek[4]; *version = 1; *issuer = r_issuer; *issuer_len = r_il; *serial_number = r_serial; *serial_number_len = r_sl; *pke_algor = r_alg; *params = NULL; *params_len = 0; *enced_key = ek; *enced_key_len = 4; *inlen = 0; return 1; }
int sm2_decrypt(const SM2_KEY *key, const uint8_t *in, size_t inlen, uint8_t *out, size_t *outlen) { d_calls++; if (d_verdict != 1) return -1; memset(out, 7, 16); *outlen = 16; return 1; }
void h_rcpt_match(void)
{
	uint8_t q_issuer[3], q_serial[3]; size_t qil = nondet_size(), qsl = nondet_size();
	r_il = nondet_size(); r_sl = nondet_size(); ASSUME(r_il >= 1 && r_il <= 3 && r_sl >= 1 && r_sl <= 3 && qil >= 1 && qil <= 3 && qsl >= 1 && qsl <= 3);
	for (int i = 0; i < 3; i++) { r_issuer[i] = nondet_u8(); r_serial[i] = nondet_u8(); q_issuer[i] = nondet_u8(); q_serial[i] = nondet_u8(); }
	r_alg = nondet_bool() ? OID_sm2encrypt : OID_undef + 3; d_verdict = nondet_bool() ? 1 : -1;
	SM2_KEY key; memset(&key, 0, sizeof(key)); uint8_t out[32]; size_t outlen = 0; uint8_t in[1] = {0}; const uint8_t *p = in; size_t l = 1;
	int ret = cms_recipient_info_decrypt_from_der(&key, q_issuer, qil, q_serial, qsl, out, &outlen, sizeof(out), &p, &l);
	int same = (r_il == qil && r_sl == qsl);
	for (size_t i = 0; i < 3; i++) { if (i < qil && r_issuer[i] != q_issuer[i]) same = 0; if (i < qsl && r_serial[i] != q_serial[i]) same = 0; }
	if (!same) CHECK(ret == 0 && d_calls == 0, "a RecipientInfo for another certificate (issuer or serial differ in length or content) is skipped, not decrypted");
	if (ret == 1) { V_COVER("recipient info opened"); CHECK(same && r_alg == OID_sm2encrypt && d_verdict == 1 && outlen == 16, "opened only for the matching recipient, SM2 encryption, decryption succeeded"); }
	V_REACH();
}
#endif
