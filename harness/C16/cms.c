/* C16: control-flow theorems of src/cms.c over abstract DER parts */
#include <stdio.h>
#include <string.h>
#include <gmssl/cms.h>
#include <gmssl/sm2.h>
#include <gmssl/sm3.h>
#include <gmssl/oid.h>
#include "verif.h"

int asn1_check(int expr) { return expr ? 1 : -1; }
#if defined(SIGNED)
/* ---- cms_signed_data_verify_from_der: >= 1 SignerInfo, each verified over H(content-info header || content) ---- */
#define NS 3
static uint8_t s_infos[NS]; static size_t s_n; static int s_verdict[NS]; static int s_calls; static int s_ver, s_dig, s_digcnt;
static uint8_t content[4]; static uint8_t hdr_bytes[6];
static const uint8_t *u_ptr[2]; static size_t u_len[2]; static int u_n; static const SM3_CTX *u_ctx; static const SM3_CTX *v_ctx; static int v_upd_before;
int cms_signed_data_from_der(int *version, int *digest_algors, size_t *digest_algors_cnt, size_t max_digest_algors,
	int *content_type, const uint8_t **pcontent, size_t *content_len, const uint8_t **certs, size_t *certs_len,
	const uint8_t **crls, size_t *crls_len, const uint8_t **signer_infos, size_t *signer_infos_len, const uint8_t **in, size_t *inlen)
{
	*version = s_ver; digest_algors[0] = s_dig; *digest_algors_cnt = (size_t)s_digcnt; *content_type = OID_cms_data;
	*pcontent = content; *content_len = 4; *certs = NULL; *certs_len = 0; *crls = NULL; *crls_len = 0;
	*signer_infos = s_infos; *signer_infos_len = s_n; *inlen = 0; return 1;
}
int cms_content_info_header_to_der(int content_type, size_t content_len, uint8_t **out, size_t *outlen)
{ __CPROVER_assert(content_type == OID_cms_data && content_len == 4, "header for the parsed content type and length"); memcpy(*out, hdr_bytes, 6); *out += 6; *outlen += 6; return 1; }
void sm3_init(SM3_CTX *c) { u_n = 0; u_ctx = c; }
void sm3_update(SM3_CTX *c, const uint8_t *d, size_t n) { if (c == u_ctx && u_n < 2) { u_ptr[u_n] = d; u_len[u_n] = n; } u_n++; }
int cms_signer_info_verify_from_der(const SM3_CTX *sm3_ctx, const uint8_t *certs, size_t certslen, const uint8_t **cert, size_t *certlen,
	const uint8_t **issuer, size_t *issuer_len, const uint8_t **serial, size_t *serial_len, const uint8_t **authed_attrs, size_t *authed_attrs_len,
	const uint8_t **unauthed_attrs, size_t *unauthed_attrs_len, const uint8_t **in, size_t *inlen)
{
	if (*inlen == 0) return -1;
	int i = (*in)[0]; __CPROVER_assert(i < NS, "idx");
	v_ctx = sm3_ctx; v_upd_before = u_n; s_calls++;
	(*in)++; (*inlen)--;
	return s_verdict[i];
}
void h_signed_verify(void)
{
	s_n = nondet_size(); ASSUME(s_n <= NS);
	for (int i = 0; i < NS; i++) { s_infos[i] = (uint8_t)i; int v = nondet_int(); ASSUME(v == 1 || v == 0 || v == -1); s_verdict[i] = v; }
	s_ver = nondet_int(); s_dig = nondet_int(); s_digcnt = nondet_int(); ASSUME(s_digcnt >= 1 && s_digcnt <= 4);
	int ct; const uint8_t *c, *certs, *crls, *si; size_t cl, certsl, crlsl, sil; uint8_t in[1] = {0}; const uint8_t *p = in; size_t l = 1;
	int ret = cms_signed_data_verify_from_der(NULL, 0, NULL, 0, &ct, &c, &cl, &certs, &certsl, &crls, &crlsl, &si, &sil, &p, &l);
	if (ret == 1) {
		V_COVER("signed data accepted");
		CHECK(s_n >= 1, "a SignedData without SignerInfo never verifies");
		CHECK(s_calls == (int)s_n, "every SignerInfo was verified");
		for (size_t i = 0; i < NS; i++) if (i < s_n) CHECK(s_verdict[i] == 1, "every SignerInfo verification succeeded");
		CHECK(s_ver == CMS_version_v1 && s_dig == OID_sm3 && s_digcnt == 1, "version 1, digest SM3 only");
		CHECK(v_ctx == u_ctx && v_upd_before == 2 && u_len[0] == 6 && u_ptr[1] == content && u_len[1] == 4, "signers are checked against H(content-info header || content)");
	}
	V_REACH();
}
#elif defined(SIGNSIDE)
/* ---- cms_signed_data_sign_to_der: what is hashed is exactly the ContentInfo that is emitted; SignerInfo i is made with signer i's key and certificate ---- */
#define DL 5
#define NSG 2
static uint8_t h_buf[64]; static size_t h_len; static const SM3_CTX *h_ctx; static int h_over;
void sm3_init(SM3_CTX *c) { h_ctx = c; h_len = 0; }
void sm3_update(SM3_CTX *c, const uint8_t *d, size_t n) { if (c != h_ctx || h_len + n > sizeof(h_buf)) { h_over = 1; return; } for (size_t i = 0; i < n; i++) h_buf[h_len + i] = d[i]; h_len += n; }
int x509_cert_get_issuer_and_serial_number(const uint8_t *a, size_t alen, const uint8_t **issuer, size_t *issuer_len, const uint8_t **serial, size_t *serial_len)
{ *issuer = a; *issuer_len = 1; *serial = a + 1; *serial_len = 1; return 1; }
static const SM2_KEY *a_key[NSG + 1]; static const uint8_t *a_issuer[NSG + 1]; static const SM3_CTX *a_ctx[NSG + 1]; static size_t a_hlen[NSG + 1]; static int a_n;
int cms_signer_infos_add_signer_info(uint8_t *d, size_t *dlen, size_t maxlen, const SM3_CTX *sm3_ctx, const SM2_KEY *sign_key,
	const uint8_t *issuer, size_t issuer_len, const uint8_t *serial_number, size_t serial_number_len,
	const uint8_t *authed_attrs, size_t authed_attrs_len, const uint8_t *unauthed_attrs, size_t unauthed_attrs_len)
{
	if (a_n < NSG + 1) { a_key[a_n] = sign_key; a_issuer[a_n] = issuer; a_ctx[a_n] = sm3_ctx; a_hlen[a_n] = h_len; }
	a_n++; d[*dlen] = 0x30; (*dlen)++;
	return 1;
}
int cms_implicit_signers_certs_to_der(int index, const CMS_CERTS_AND_KEY *signers, size_t signers_cnt, uint8_t **out, size_t *outlen) { return 1; }
int cms_digest_algors_to_der(const int *digest_algors, size_t digest_algors_cnt, uint8_t **out, size_t *outlen) { return 1; }
static void sign_side(int ct)
{
	SM2_KEY k[NSG]; uint8_t c[NSG][2]; CMS_CERTS_AND_KEY sg[NSG]; uint8_t data[DL], out[128], exp[64]; uint8_t *p = out, *q = exp; size_t outlen = 0, explen = 0;
	for (int i = 0; i < DL; i++) data[i] = nondet_u8();
	for (int i = 0; i < NSG; i++) { sg[i].certs = c[i]; sg[i].certs_len = 2; sg[i].sign_key = &k[i]; }
	int r = cms_signed_data_sign_to_der(sg, NSG, ct, data, DL, NULL, 0, &p, &outlen);
	CHECK(r == 1, "signing succeeds");
	CHECK(cms_content_info_to_der(ct, data, DL, &q, &explen) == 1, "ContentInfo encodes");
	CHECK(!h_over && h_len == explen, "the digest covers exactly as many bytes as the emitted ContentInfo has");
	for (size_t i = 0; i < sizeof(exp); i++) if (i < explen) CHECK(h_buf[i] == exp[i], "the digest input is the DER of the emitted ContentInfo (header and content)");
	CHECK(a_n == NSG, "one SignerInfo per signer");
	for (int i = 0; i < NSG; i++) {
		CHECK(a_key[i] == &k[i], "SignerInfo i is signed with signer i's key");
		CHECK(a_issuer[i] == c[i], "SignerInfo i names signer i's certificate");
		CHECK(a_ctx[i] == h_ctx && a_hlen[i] == explen, "every SignerInfo signs the digest of the whole ContentInfo");
	}
}
void h_sign_side(void)
{
	int ct = nondet_int();
	static const int types[] = { OID_cms_data, OID_cms_signed_data, OID_cms_enveloped_data, OID_cms_signed_and_enveloped_data, OID_cms_encrypted_data, OID_cms_key_agreement_info };
	int hit = 0;
	for (int i = 0; i < 6; i++) if (ct == types[i]) { sign_side(types[i]); hit = 1; break; }
	ASSUME(hit);
	V_REACH();
}
#elif defined(LOOKUP)
/* ---- x509_certs_get_cert_by_issuer_and_serial_number (signer / recipient certificate lookup): the first certificate whose issuer AND serial number equal the wanted ones exactly ---- */
#include <gmssl/x509.h>
#define NC 3
static uint8_t l_iss[NC][3], l_ser[NC][3]; static size_t l_il[NC], l_sl[NC]; static uint8_t l_list[NC];
int x509_cert_from_der(const uint8_t **a, size_t *alen, const uint8_t **in, size_t *inlen) { if (*inlen == 0) return -1; *a = *in; *alen = 1; (*in)++; (*inlen)--; return 1; }
int x509_cert_get_issuer_and_serial_number(const uint8_t *a, size_t alen, const uint8_t **issuer, size_t *issuer_len, const uint8_t **serial, size_t *serial_len)
{ int i = a[0]; __CPROVER_assert(i < NC, "idx"); *issuer = l_iss[i]; *issuer_len = l_il[i]; *serial = l_ser[i]; *serial_len = l_sl[i]; return 1; }
static int same(const uint8_t *a, size_t al, const uint8_t *b, size_t bl) { if (al != bl) return 0; for (size_t i = 0; i < 3; i++) if (i < al && a[i] != b[i]) return 0; return 1; }
int x509_name_equ(const uint8_t *a, size_t alen, const uint8_t *b, size_t blen) { return same(a, alen, b, blen); }
void h_cert_lookup(void)
{
	size_t n = nondet_size(); ASSUME(n <= NC);
	for (int i = 0; i < NC; i++) { l_list[i] = (uint8_t)i; l_il[i] = nondet_size(); l_sl[i] = nondet_size(); ASSUME(l_il[i] >= 1 && l_il[i] <= 3 && l_sl[i] >= 1 && l_sl[i] <= 3); for (int j = 0; j < 3; j++) { l_iss[i][j] = nondet_u8(); l_ser[i][j] = nondet_u8(); } }
	uint8_t wi[3], ws[3]; size_t wil = nondet_size(), wsl = nondet_size(); ASSUME(wil >= 1 && wil <= 3 && wsl >= 1 && wsl <= 3);
	for (int j = 0; j < 3; j++) { wi[j] = nondet_u8(); ws[j] = nondet_u8(); }
	const uint8_t *cert = 0; size_t certlen = 0;
	int r = x509_certs_get_cert_by_issuer_and_serial_number(l_list, n, wi, wil, ws, wsl, &cert, &certlen);
	int first = -1;
	for (int i = NC - 1; i >= 0; i--) if ((size_t)i < n && same(l_iss[i], l_il[i], wi, wil) && same(l_ser[i], l_sl[i], ws, wsl)) first = i;
	CHECK(r == 1 || r == 0, "found or not found");
	CHECK((r == 1) == (first >= 0), "found exactly when some certificate has the wanted issuer and the wanted serial number (same length, same bytes)");
	if (r == 1) { V_COVER("certificate found"); CHECK(cert == &l_list[first] && certlen == 1, "the first such certificate is returned"); }
	else CHECK(cert == 0 && certlen == 0, "no certificate is returned otherwise");
	V_REACH();
}
#elif defined(SCAN)
/* ---- cms_enveloped_data_decrypt_from_der / cms_signed_and_enveloped_data_decipher_from_der: the RecipientInfos are scanned until the first one
 * the offered key opens (non-matching ones are skipped, an error stops), the content is decrypted with THAT key, and (signed-and-enveloped) at least one
 * SignerInfo is present and every SignerInfo verifies over H(header || content) ---- */
#define NR 3
#define NSI 2
static uint8_t r_list[NR], si_list[NSI]; static size_t r_n, si_n; static int r_verdict[NR], si_verdict[NSI]; static int r_calls, si_calls, c_calls, c_verdict; static uint8_t c_key0; static size_t c_keylen; static int s_ver, s_dig;
static const SM3_CTX *u_ctx, *v_ctx; static int u_n, v_upd_before;
int cms_enveloped_data_from_der(int *version, const uint8_t **rcpt_infos, size_t *rcpt_infos_len, const uint8_t **enced, size_t *enced_len, const uint8_t **in, size_t *inlen)
{ *version = s_ver; *rcpt_infos = r_list; *rcpt_infos_len = r_n; *enced = 0; *enced_len = 0; *inlen = 0; return 1; }
int cms_signed_and_enveloped_data_from_der(int *version, const uint8_t **rcpt_infos, size_t *rcpt_infos_len, int *digest_algors, size_t *digest_algors_cnt, size_t max_digest_algors,
	const uint8_t **enced, size_t *enced_len, const uint8_t **certs, size_t *certs_len, const uint8_t **crls, size_t *crls_len, const uint8_t **signer_infos, size_t *signer_infos_len, const uint8_t **in, size_t *inlen)
{ *version = s_ver; *rcpt_infos = r_list; *rcpt_infos_len = r_n; digest_algors[0] = s_dig; *digest_algors_cnt = 1; *enced = 0; *enced_len = 0; *certs = 0; *certs_len = 0; *crls = 0; *crls_len = 0; *signer_infos = si_list; *signer_infos_len = si_n; *inlen = 0; return 1; }
int cms_recipient_info_decrypt_from_der(const SM2_KEY *sm2_key, const uint8_t *rcpt_issuer, size_t rcpt_issuer_len, const uint8_t *rcpt_serial, size_t rcpt_serial_len,
	uint8_t *out, size_t *outlen, size_t maxlen, const uint8_t **in, size_t *inlen)
{
	if (*inlen == 0) return -1;
	int i = (*in)[0]; __CPROVER_assert(i < NR, "idx"); r_calls++; (*in)++; (*inlen)--;
	if (r_verdict[i] == 1) { out[0] = (uint8_t)(0xa0 + i); *outlen = 16; }
	return r_verdict[i];
}
int cms_enced_content_info_decrypt_from_der(int *enc_algor, const uint8_t *key, size_t keylen, int *content_type, uint8_t *content, size_t *content_len,
	const uint8_t **shared_info1, size_t *shared_info1_len, const uint8_t **shared_info2, size_t *shared_info2_len, const uint8_t **in, size_t *inlen)
{ c_calls++; c_key0 = key[0]; c_keylen = keylen; *content_type = OID_cms_data; *content_len = 4; return c_verdict; }
int cms_content_info_header_to_der(int content_type, size_t content_len, uint8_t **out, size_t *outlen) { *out += 6; *outlen += 6; return 1; }
void sm3_init(SM3_CTX *c) { u_n = 0; u_ctx = c; }
void sm3_update(SM3_CTX *c, const uint8_t *d, size_t n) { u_n++; }
int cms_signer_info_verify_from_der(const SM3_CTX *sm3_ctx, const uint8_t *certs, size_t certslen, const uint8_t **cert, size_t *certlen,
	const uint8_t **issuer, size_t *issuer_len, const uint8_t **serial, size_t *serial_len, const uint8_t **authed_attrs, size_t *authed_attrs_len,
	const uint8_t **unauthed_attrs, size_t *unauthed_attrs_len, const uint8_t **in, size_t *inlen)
{
	if (*inlen == 0) return -1;
	int i = (*in)[0]; __CPROVER_assert(i < NSI, "idx"); v_ctx = sm3_ctx; v_upd_before = u_n; si_calls++; (*in)++; (*inlen)--;
	return si_verdict[i];
}
void h_scan(void)
{
	r_n = nondet_size(); ASSUME(r_n <= NR); si_n = nondet_size(); ASSUME(si_n <= NSI);
	for (int i = 0; i < NR; i++) { r_list[i] = (uint8_t)i; int v = nondet_int(); ASSUME(v == 1 || v == 0 || v == -1); r_verdict[i] = v; }
	for (int i = 0; i < NSI; i++) { si_list[i] = (uint8_t)i; int v = nondet_int(); ASSUME(v == 1 || v == 0 || v == -1); si_verdict[i] = v; }
	c_verdict = nondet_bool() ? 1 : -1; s_ver = nondet_int(); s_dig = nondet_int();
	SM2_KEY key; memset(&key, 0, sizeof(key)); uint8_t iss[1] = {1}, ser[1] = {2}, content[16]; size_t content_len = 0; int ct;
	const uint8_t *ri, *s1, *s2, *certs, *crls, *si; size_t ril, s1l, s2l, certsl, crlsl, sil; uint8_t in[1] = {0}; const uint8_t *p = in; size_t l = 1;
#ifdef SIGNED_ENV
	int ret = cms_signed_and_enveloped_data_decipher_from_der(&key, iss, 1, ser, 1, &ct, content, &content_len, &ri, &ril, &s1, &s1l, &s2, &s2l, &certs, &certsl, &crls, &crlsl, &si, &sil, NULL, 0, NULL, 0, &p, &l);
#else
	int ret = cms_enveloped_data_decrypt_from_der(&key, iss, 1, ser, 1, &ct, content, &content_len, &ri, &ril, &s1, &s1l, &s2, &s2l, &p, &l);
#endif
	/* the first RecipientInfo that is not skipped decides */
	int first = -1; for (int i = NR - 1; i >= 0; i--) if ((size_t)i < r_n && r_verdict[i] != 0) first = i;
	int opened = first >= 0 && r_verdict[first] == 1;
	if (ret == 1) {
		V_COVER("message opened");
		CHECK(s_ver == CMS_version_v1, "version 1");
		CHECK(opened, "some RecipientInfo was opened with the offered key, every earlier one was skipped as not matching");
		CHECK(c_calls == 1 && c_verdict == 1 && c_keylen == 16 && c_key0 == (uint8_t)(0xa0 + first), "the content is decrypted with the key from that RecipientInfo");
#ifdef SIGNED_ENV
		CHECK(s_dig == OID_sm3, "digest SM3");
		CHECK(si_n >= 1, "a signed-and-enveloped message without SignerInfo never verifies");
		CHECK(si_calls == (int)si_n, "every SignerInfo was verified");
		for (size_t i = 0; i < NSI; i++) if (i < si_n) CHECK(si_verdict[i] == 1, "every SignerInfo verification succeeded");
		CHECK(v_ctx == u_ctx && v_upd_before == 2, "signers are checked against H(content-info header || content)");
#endif
	}
#ifdef SIGNED_ENV
	int sig_ok = si_n >= 1; for (size_t i = 0; i < NSI; i++) if (i < si_n && si_verdict[i] != 1) sig_ok = 0;
	if (s_ver == CMS_version_v1 && s_dig == OID_sm3 && opened && c_verdict == 1 && sig_ok) CHECK(ret == 1, "a recipient that is not the first one opens the message as well");
#else
	if (s_ver == CMS_version_v1 && opened && c_verdict == 1) CHECK(ret == 1, "a recipient that is not the first one opens the message as well");
#endif
	V_REACH();
}
#elif defined(RCPT)
/* ---- cms_recipient_info_decrypt_from_der: decrypts only the RecipientInfo whose issuer AND serial equal the offered certificate's ---- */
static uint8_t r_issuer[3], r_serial[3]; static size_t r_il, r_sl; static int r_alg; static int d_calls, d_verdict;
int cms_recipient_info_from_der(int *version, const uint8_t **issuer, size_t *issuer_len, const uint8_t **serial_number, size_t *serial_number_len,
	int *pke_algor, const uint8_t **params, size_t *params_len, const uint8_t **enced_key, size_t *enced_key_len, const uint8_t **in, size_t *inlen)
{ static uint8_t ek[4]; *version = 1; *issuer = r_issuer; *issuer_len = r_il; *serial_number = r_serial; *serial_number_len = r_sl; *pke_algor = r_alg; *params = NULL; *params_len = 0; *enced_key = ek; *enced_key_len = 4; *inlen = 0; return 1; }
int sm2_decrypt(const SM2_KEY *key, const uint8_t *in, size_t inlen, uint8_t *out, size_t *outlen) { d_calls++; if (d_verdict != 1) return -1; memset(out, 7, 16); *outlen = 16; return 1; }
void h_rcpt_match(void)
{
	uint8_t q_issuer[3], q_serial[3]; size_t qil = nondet_size(), qsl = nondet_size();
	r_il = nondet_size(); r_sl = nondet_size(); ASSUME(r_il >= 1 && r_il <= 3 && r_sl >= 1 && r_sl <= 3 && qil >= 1 && qil <= 3 && qsl >= 1 && qsl <= 3);
	for (int i = 0; i < 3; i++) { r_issuer[i] = nondet_u8(); r_serial[i] = nondet_u8(); q_issuer[i] = nondet_u8(); q_serial[i] = nondet_u8(); }
	r_alg = nondet_bool() ? OID_sm2encrypt : OID_undef + 3; d_verdict = nondet_bool() ? 1 : -1;
	SM2_KEY key; memset(&key, 0, sizeof(key)); uint8_t out[32]; size_t outlen = 0; uint8_t in[1] = {0}; const uint8_t *p = in; size_t l = 1;
	int ret = cms_recipient_info_decrypt_from_der(&key, q_issuer, qil, q_serial, qsl, out, &outlen, sizeof(out), &p, &l);
	int same = (r_il == qil && r_sl == qsl);
	for (size_t i = 0; i < 3; i++) { if (i < qil && r_issuer[i] != q_issuer[i]) same = 0; if (i < qsl && r_serial[i] != q_serial[i]) same = 0; }
	if (!same) CHECK(ret == 0 && d_calls == 0, "a RecipientInfo for another certificate (issuer or serial differ in length or content) is skipped, not decrypted");
	if (ret == 1) { V_COVER("recipient info opened"); CHECK(same && r_alg == OID_sm2encrypt && d_verdict == 1 && outlen == 16, "opened only for the matching recipient, SM2 encryption, decryption succeeded"); }
	V_REACH();
}
#endif
