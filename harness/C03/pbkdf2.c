/* C03-c: PBKDF2-HMAC-SM3 structure (RFC 8018 5.2) with HMAC as an ideal PRF at the sm3_hmac_* interface:
 * every PRF call is logged as (key context tag, message bytes), output = fresh arbitrary 32 bytes. */
#include <stdio.h>
#include <string.h>
#include <gmssl/sm3.h>
#include "verif.h"

#define NCALL 12
static uint8_t q_msg[NCALL][40]; static size_t q_len[NCALL]; static uint8_t q_out[NCALL][32]; static int q_n; static int q_badkey;
#define KEYTAG 0x3c
static const char *g_pass; static size_t g_passlen;
void sm3_hmac_init(SM3_HMAC_CTX *ctx, const uint8_t *key, size_t keylen)
{ memset(ctx, KEYTAG, sizeof(*ctx)); if (key != (const uint8_t *)g_pass || keylen != g_passlen) q_badkey = 1; ctx->sm3_ctx.nblocks = 0; }
void sm3_hmac_update(SM3_HMAC_CTX *ctx, const uint8_t *data, size_t len)
{
	if (ctx->key[0] != KEYTAG) q_badkey = 1;
	size_t cur = (size_t)ctx->sm3_ctx.nblocks;       /* bytes absorbed so far by this (copied) context */
	__CPROVER_assert(q_n < NCALL && cur + len <= 40, "PRF log large enough");
	for (size_t i = 0; i < len; i++) q_msg[q_n][cur + i] = data[i];
	ctx->sm3_ctx.nblocks = cur + len;
}
void sm3_hmac_finish(SM3_HMAC_CTX *ctx, uint8_t mac[32])
{
	q_len[q_n] = (size_t)ctx->sm3_ctx.nblocks;
	for (int i = 0; i < 32; i++) { q_out[q_n][i] = nondet_u8(); mac[i] = q_out[q_n][i]; }
	q_n++;
}
#ifndef SALTLEN
#define SALTLEN 3
#endif
#ifndef COUNT
#define COUNT 3
#endif
#ifndef OUTLEN
#define OUTLEN 48
#endif
void h_pbkdf2(void)
{
	char pass[4]; uint8_t salt[SALTLEN], out[OUTLEN];
	for (int i = 0; i < SALTLEN; i++) salt[i] = nondet_u8();
	g_pass = pass; g_passlen = 4;
	CHECK(sm3_pbkdf2(pass, 4, salt, SALTLEN, COUNT, OUTLEN, out) == 1, "pbkdf2");
	int l = (OUTLEN + 31) / 32;
	CHECK(q_n == l * COUNT && !q_badkey, "l * c PRF calls, all keyed with the password");
	for (int b = 0; b < l; b++) {
		uint8_t T[32];
		/* U_1 = PRF(P, S || INT(b+1)) */
		int q = b * COUNT;
		CHECK(q_len[q] == SALTLEN + 4, "U_1 input = salt || INT(i)");
		for (int i = 0; i < SALTLEN; i++) CHECK(q_msg[q][i] == salt[i], "salt");
		CHECK(q_msg[q][SALTLEN] == 0 && q_msg[q][SALTLEN + 1] == 0 && q_msg[q][SALTLEN + 2] == 0 && q_msg[q][SALTLEN + 3] == b + 1, "INT(i), i from 1");
		memcpy(T, q_out[q], 32);
		for (int j = 1; j < COUNT; j++) {
			CHECK(q_len[q + j] == 32, "U_j input = U_{j-1}");
			for (int i = 0; i < 32; i++) CHECK(q_msg[q + j][i] == q_out[q + j - 1][i], "U_j = PRF(P, U_{j-1})");
			for (int i = 0; i < 32; i++) T[i] ^= q_out[q + j][i];
		}
		for (int i = 0; i < 32; i++) if (32 * b + i < OUTLEN) CHECK(out[32 * b + i] == T[i], "T_i = U_1 xor ... xor U_c, DK = T_1 || T_2 ... truncated");
	}
	V_REACH();
}
