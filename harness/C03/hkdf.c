/* C03-c: HKDF (RFC 5869) over an ideal PRF at the HMAC interface (generic hmac_* and sm3_hmac_*):
 * PRK = HMAC(salt or 0^HashLen, IKM); T(1) = HMAC(PRK, info || 01), T(i) = HMAC(PRK, T(i-1) || info || i), OKM = T(1) || ... truncated */
#include <stdio.h>
#include <string.h>
#include <gmssl/hkdf.h>
#include <gmssl/hmac.h>
#include <gmssl/sm3.h>
#include <gmssl/digest.h>
#include "verif.h"
#define NQ 6
#define QL 80
static uint8_t q_key[NQ][40]; static size_t q_keylen[NQ]; static uint8_t q_in[NQ][QL]; static size_t q_len[NQ]; static uint8_t q_out[NQ][32]; static int q_n, q_cur = -1;
static void q_init(const uint8_t *key, size_t keylen) { __CPROVER_assert(q_n < NQ && keylen <= 40, "log"); q_cur = q_n++; memcpy(q_key[q_cur], key, keylen); q_keylen[q_cur] = keylen; q_len[q_cur] = 0; }
static void q_update(const uint8_t *d, size_t n) { __CPROVER_assert(q_len[q_cur] + n <= QL, "log"); for (size_t i = 0; i < n; i++) q_in[q_cur][q_len[q_cur] + i] = d[i]; q_len[q_cur] += n; }
static void q_finish(uint8_t *mac) { for (int i = 0; i < 32; i++) { q_out[q_cur][i] = nondet_u8(); mac[i] = q_out[q_cur][i]; } }
#ifdef GENERIC
static DIGEST g_digest;
const DIGEST *DIGEST_sm3(void) { g_digest.digest_size = 32; g_digest.block_size = 64; return &g_digest; }
int hmac_init(HMAC_CTX *ctx, const DIGEST *digest, const uint8_t *key, size_t keylen) { if (!key || !keylen) return -1; q_init(key, keylen); return 1; }
int hmac_update(HMAC_CTX *ctx, const uint8_t *data, size_t datalen) { if (!data || !datalen) return 0; q_update(data, datalen); return 1; }
int hmac_finish(HMAC_CTX *ctx, uint8_t *mac, size_t *maclen) { q_finish(mac); *maclen = 32; return 1; }
#define EXTRACT(salt, sl, ikm, il, prk) do { size_t pl = 0; CHECK(hkdf_extract(DIGEST_sm3(), salt, sl, ikm, il, prk, &pl) == 1 && pl == 32, "extract"); } while (0)
#define EXPAND(prk, info, il, L, okm) CHECK(hkdf_expand(DIGEST_sm3(), prk, 32, info, il, L, okm) == 1, "expand")
#else
void sm3_hmac_init(SM3_HMAC_CTX *c, const uint8_t *key, size_t keylen) { q_init(key, keylen); }
void sm3_hmac_update(SM3_HMAC_CTX *c, const uint8_t *d, size_t n) { q_update(d, n); }
void sm3_hmac_finish(SM3_HMAC_CTX *c, uint8_t mac[32]) { q_finish(mac); }
#define EXTRACT(salt, sl, ikm, il, prk) CHECK(sm3_hkdf_extract(salt, sl, ikm, il, prk) == 1, "extract")
#define EXPAND(prk, info, il, L, okm) CHECK(sm3_hkdf_expand(prk, info, il, L, okm) == 1, "expand")
#endif
#ifndef SALTLEN
#define SALTLEN 4
#endif
#ifndef INFOLEN
#define INFOLEN 3
#endif
#ifndef OKMLEN
#define OKMLEN 40
#endif
void h_hkdf(void)
{
	uint8_t salt[SALTLEN ? SALTLEN : 1], ikm[5], info[INFOLEN ? INFOLEN : 1], prk[32], okm[OKMLEN];
	for (int i = 0; i < SALTLEN; i++) salt[i] = nondet_u8();
	for (int i = 0; i < 5; i++) ikm[i] = nondet_u8();
	for (int i = 0; i < INFOLEN; i++) info[i] = nondet_u8();
	EXTRACT(SALTLEN ? salt : NULL, SALTLEN, ikm, 5, prk);
	CHECK(q_n == 1 && q_len[0] == 5, "PRK = one HMAC over IKM");
	if (SALTLEN) { CHECK(q_keylen[0] == SALTLEN, "keyed with the salt"); for (int i = 0; i < SALTLEN; i++) CHECK(q_key[0][i] == salt[i], "salt"); }
	else { CHECK(q_keylen[0] == 32, "absent salt = HashLen zero bytes"); for (int i = 0; i < 32; i++) CHECK(q_key[0][i] == 0, "zero salt"); }
	for (int i = 0; i < 5; i++) CHECK(q_in[0][i] == ikm[i], "IKM");
	for (int i = 0; i < 32; i++) CHECK(prk[i] == q_out[0][i], "PRK = that MAC");
	EXPAND(prk, INFOLEN ? info : NULL, INFOLEN, OKMLEN, okm);
	int n = (OKMLEN + 31) / 32;
	CHECK(q_n == 1 + n, "ceil(L/HashLen) expansion blocks");
	for (int b = 0; b < n; b++) {
		int q = 1 + b; size_t pre = b ? 32 : 0;
		CHECK(q_keylen[q] == 32, "keyed with PRK"); for (int i = 0; i < 32; i++) CHECK(q_key[q][i] == prk[i], "PRK");
		CHECK(q_len[q] == pre + INFOLEN + 1, "T(i) input = T(i-1) || info || i");
		for (size_t i = 0; i < pre; i++) CHECK(q_in[q][i] == q_out[q - 1][i], "T(i-1)");
		for (int i = 0; i < INFOLEN; i++) CHECK(q_in[q][pre + i] == info[i], "info");
		CHECK(q_in[q][pre + INFOLEN] == b + 1, "counter octet from 1");
		for (int i = 0; i < 32; i++) if (32 * b + i < OKMLEN) CHECK(okm[32 * b + i] == q_out[q][i], "OKM = T(1) || T(2) ... truncated");
	}
	V_REACH();
}
