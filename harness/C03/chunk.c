/* C03-a: chunking and padding of the streaming hash interfaces.  The compression function is replaced by a block
 * recorder, so the claim is: for every message and every 3-way split the blocks handed to the compression function
 * are exactly  msg || 0x80 || 0* || bitlen(be64 / be128), in order, and the digest is the serialised final state. */
#include <stdio.h>
#include <string.h>
#include <gmssl/sm3.h>
#include <gmssl/sha1.h>
#include <gmssl/sha2.h>
#include "verif.h"

#if defined(H_SM3)
#define CTX SM3_CTX
#define INIT sm3_init
#define UPDATE sm3_update
#define FINISH sm3_finish
#define COMPRESS sm3_compress_blocks
#define STATE(c) (c).digest
#define BS 64
#define LENBYTES 8
#define DGST 32
typedef uint32_t word_t;
#elif defined(H_SHA256)
#define CTX SHA256_CTX
#define INIT sha256_init
#define UPDATE sha256_update
#define FINISH sha256_finish
#define COMPRESS sha256_compress_blocks
#define STATE(c) (c).state
#define BS 64
#define LENBYTES 8
#define DGST 32
typedef uint32_t word_t;
#elif defined(H_SHA224)
#define CTX SHA224_CTX
#define INIT sha224_init
#define UPDATE sha224_update
#define FINISH sha224_finish
#define COMPRESS sha256_compress_blocks
#define STATE(c) (c).state
#define BS 64
#define LENBYTES 8
#define DGST 28
typedef uint32_t word_t;
#elif defined(H_SHA1)
#define CTX SHA1_CTX
#define INIT sha1_init
#define UPDATE sha1_update
#define FINISH sha1_finish
#define COMPRESS sha1_compress_blocks
#define STATE(c) (c).state
#define BS 64
#define LENBYTES 8
#define DGST 20
typedef uint32_t word_t;
#elif defined(H_SHA512)
#define CTX SHA512_CTX
#define INIT sha512_init
#define UPDATE sha512_update
#define FINISH sha512_finish
#define COMPRESS sha512_compress_blocks
#define STATE(c) (c).state
#define BS 128
#define LENBYTES 16
#define DGST 64
typedef uint64_t word_t;
#elif defined(H_SHA384)
#define CTX SHA384_CTX
#define INIT sha384_init
#define UPDATE sha384_update
#define FINISH sha384_finish
#define COMPRESS sha512_compress_blocks
#define STATE(c) (c).state
#define BS 128
#define LENBYTES 16
#define DGST 48
typedef uint64_t word_t;
#endif

#ifndef LMAX
#define LMAX 70
#endif
#define RECCAP (LMAX + 2 * BS + BS)
static uint8_t rec[RECCAP]; static size_t rec_len; static unsigned rec_calls;
/* block recorder; the chaining value is advanced by a fixed injective-looking step so that "state after k blocks"
 * is observable (it is compared between streaming and the serialised digest only) */
void COMPRESS(word_t state[8], const unsigned char *data, size_t blocks)
{
	__CPROVER_assert(rec_len + blocks * BS <= RECCAP, "block recorder large enough");
	for (size_t i = 0; i < blocks * BS; i++) rec[rec_len + i] = data[i];
	rec_len += blocks * BS;
	rec_calls++;
	state[0] += (word_t)blocks;
}

void h_chunking(void)
{
	static uint8_t msg[LMAX ? LMAX : 1];
	for (size_t i = 0; i < LMAX; i++) msg[i] = nondet_u8();
	size_t L = nondet_size(), s1 = nondet_size(), s2 = nondet_size();
	ASSUME(L <= LMAX && s1 <= s2 && s2 <= L);
	CTX c; uint8_t dg[64];
	INIT(&c);
	word_t iv0 = STATE(c)[0];
	UPDATE(&c, msg, s1);
	UPDATE(&c, msg + s1, s2 - s1);
	UPDATE(&c, msg + s2, L - s2);
	FINISH(&c, dg);
	size_t padded = ((L + 1 + LENBYTES + BS - 1) / BS) * BS;
	CHECK(rec_len == padded, "number of blocks compressed = ceil((L + 1 + lenbytes) / blocksize)");
	uint64_t bits = (uint64_t)L * 8;
	for (size_t i = 0; i < RECCAP; i++) if (i < padded) {
		uint8_t want;
		if (i < L) want = msg[i];
		else if (i == L) want = 0x80;
		else if (i < padded - 8) want = 0;
		else want = (uint8_t)(bits >> (8 * (padded - 1 - i)));
		CHECK(rec[i] == want, "compressed stream = msg || 0x80 || 0* || big-endian bit length");
	}
	CHECK(STATE(c)[0] == iv0 + (word_t)(padded / BS), "every block compressed exactly once");
	V_REACH();
}

/* length field from an ARBITRARY context state: covers bit lengths beyond 2^32 without hashing 512 MiB */
void h_finish_length(void)
{
	CTX c; uint8_t dg[64];
	INIT(&c);
	uint64_t nb = nondet_u64(); size_t num = nondet_size();
	ASSUME(nb < ((uint64_t)1 << 54) && num < BS);
	c.nblocks = nb; c.num = num;
	for (int i = 0; i < BS; i++) c.block[i] = nondet_u8();
	FINISH(&c, dg);
	CHECK(rec_len == BS || rec_len == 2 * BS, "one or two final blocks");
	typedef unsigned __CPROVER_bitvector[128] u128;
	u128 bits = ((u128)nb * BS + num) * 8, got = 0;
	for (int i = 0; i < LENBYTES; i++) got = (got << 8) | rec[rec_len - LENBYTES + i];
	CHECK(got == bits, "length field = total bit length (nblocks * blocksize + num) * 8, incl. carries above 2^32");
	CHECK((rec_len == BS) == (num + 1 + LENBYTES <= BS), "second block only when the length does not fit");
	CHECK(rec[num] == 0x80, "terminator after the buffered bytes");
	V_REACH();
}
