/* C03-c: structure of HMAC / PBKDF2 / KDFs over an ideal hash.  SM3 = stream recorder (M2): every digest is a fresh
 * value, equal digests <=> equal streams.  The obligations state which byte streams are hashed, i.e. RFC 2104,
 * RFC 8018 (PBKDF2), GB/T 32918.4 KDF. */
#include <stdio.h>
#include <string.h>
#include <gmssl/sm3.h>
#include <gmssl/sm2.h>
#include <gmssl/hmac.h>
#include <gmssl/digest.h>
#include "verif.h"
#include "sm3_rec.h"

static const uint8_t *fin_stream(int k, size_t *len) { *len = rec_fin[k].len; return rec_slots[rec_fin[k].slot].buf; }

#ifndef KLEN
#define KLEN 5
#endif
#ifndef MLEN
#define MLEN 3
#endif
/* RFC 2104 with SM3: expected streams */
static void check_hmac(int k_inner, const uint8_t *K0 /*64 bytes, key or H(key) zero padded*/, const uint8_t *msg, size_t mlen, const uint8_t *mac)
{
	size_t n; const uint8_t *st = fin_stream(k_inner, &n);
	CHECK(n == 64 + mlen, "inner hash input = (K0 xor ipad) || message");
	for (int i = 0; i < 64; i++) CHECK(st[i] == (uint8_t)(K0[i] ^ 0x36), "ipad");
	for (size_t i = 0; i < mlen; i++) CHECK(st[64 + i] == msg[i], "message");
	st = fin_stream(k_inner + 1, &n);
	CHECK(n == 96, "outer hash input = (K0 xor opad) || inner digest");
	for (int i = 0; i < 64; i++) CHECK(st[i] == (uint8_t)(K0[i] ^ 0x5c), "opad");
	for (int i = 0; i < 32; i++) CHECK(st[64 + i] == rec_fin[k_inner].dgst[i], "inner digest");
	for (int i = 0; i < 32; i++) CHECK(mac[i] == rec_fin[k_inner + 1].dgst[i], "MAC = outer digest");
}
void h_sm3_hmac(void)
{
	uint8_t key[KLEN ? KLEN : 1], msg[MLEN ? MLEN : 1], mac[32], K0[64];
	for (int i = 0; i < KLEN; i++) key[i] = nondet_u8();
	for (int i = 0; i < MLEN; i++) msg[i] = nondet_u8();
	SM3_HMAC_CTX c;
	sm3_hmac_init(&c, key, KLEN);
	size_t cut = nondet_size(); ASSUME(cut <= MLEN);
	for (size_t s = 0; s <= MLEN; s++) if (cut == s) { sm3_hmac_update(&c, msg, s); sm3_hmac_update(&c, msg + s, MLEN - s); break; }
	sm3_hmac_finish(&c, mac);
	memset(K0, 0, 64);
	int first = 0;
#if KLEN > 64
	{ size_t n; const uint8_t *st = fin_stream(0, &n); CHECK(n == KLEN, "long key hashed first");
	  for (int i = 0; i < KLEN; i++) CHECK(st[i] == key[i], "key bytes"); memcpy(K0, rec_fin[0].dgst, 32); first = 1; }
#else
	memcpy(K0, key, KLEN);
#endif
	CHECK(rec_n_fin == first + 2, "number of hash computations");
	check_hmac(first, K0, msg, MLEN, mac);
	V_REACH();
}
/* generic hmac_* over DIGEST_sm3(): same streams as the direct interface */
void h_generic_hmac(void)
{
	uint8_t key[KLEN ? KLEN : 1], msg[MLEN ? MLEN : 1], mac[64], K0[64]; size_t maclen = 0;
	for (int i = 0; i < KLEN; i++) key[i] = nondet_u8();
	for (int i = 0; i < MLEN; i++) msg[i] = nondet_u8();
	HMAC_CTX c;
	CHECK(hmac_init(&c, DIGEST_sm3(), key, KLEN) == 1, "init");
	CHECK(hmac_update(&c, msg, MLEN) == 1 || MLEN == 0, "update");
	CHECK(hmac_finish(&c, mac, &maclen) == 1 && maclen == 32, "finish");
	memset(K0, 0, 64);
	int first = 0;
#if KLEN > 64
	memcpy(K0, rec_fin[0].dgst, 32); first = 1;
#else
	memcpy(K0, key, KLEN);
#endif
	/* the generic interface pre-computes both pads, so inner and outer streams end in order inner, outer */
	check_hmac(first, K0, msg, MLEN, mac);
	V_REACH();
}

/* GB/T 32918.4 KDF: block i (i = 1, 2, ...) = H(Z || be32(i)), output = first klen bytes */
#ifndef ZLEN
#define ZLEN 6
#endif
#ifndef OUTLEN
#define OUTLEN 40
#endif
void h_kdf(void)
{
	uint8_t z[ZLEN], out[OUTLEN ? OUTLEN : 1];
	for (int i = 0; i < ZLEN; i++) z[i] = nondet_u8();
	int which = nondet_bool();
	if (which) CHECK(sm2_kdf(z, ZLEN, OUTLEN, out) == 1, "sm2_kdf");
	else { SM3_KDF_CTX k; sm3_kdf_init(&k, OUTLEN); sm3_kdf_update(&k, z, 2); sm3_kdf_update(&k, z + 2, ZLEN - 2); sm3_kdf_finish(&k, out); }
	int nblk = (OUTLEN + 31) / 32;
	CHECK(rec_n_fin == nblk, "ceil(klen/32) hash computations");
	for (int b = 0; b < nblk; b++) {
		size_t n; const uint8_t *st = fin_stream(b, &n);
		CHECK(n == ZLEN + 4, "KDF block input = Z || counter");
		for (int i = 0; i < ZLEN; i++) CHECK(st[i] == z[i], "Z");
		CHECK(st[ZLEN] == 0 && st[ZLEN + 1] == 0 && st[ZLEN + 2] == 0 && st[ZLEN + 3] == b + 1, "32-bit big-endian counter starting at 1");
		for (int i = 0; i < 32; i++) if (32 * b + i < OUTLEN) CHECK(out[32 * b + i] == rec_fin[b].dgst[i], "output = concatenated digests, last one truncated");
	}
	V_REACH();
}
