/* C02-b: SM2Cipher DER codec: to_der/from_der round trip for arbitrary coordinates (leading zeros included),
 * dry-run length, exact consumption */
#include <stdio.h>
#include <string.h>
#include <gmssl/sm2.h>
#include "verif.h"
#ifndef CL
#define CL 3
#endif
static void der_case(size_t zx, size_t zy, uint8_t fx, uint8_t fy)
{
	SM2_CIPHERTEXT C, B; memset(&C, 0, sizeof(C));
	for (size_t i = 0; i < 32; i++) { C.point.x[i] = (i < zx) ? 0 : nondet_u8(); C.point.y[i] = (i < zy) ? 0 : nondet_u8(); }
	/* first significant byte concrete (one value with, one without the top bit) so that the encoder's
	 * leading-zero loop has a concrete trip count; all other bytes arbitrary */
	C.point.x[zx] = fx; C.point.y[zy] = fy;
	for (int i = 0; i < 32; i++) C.hash[i] = nondet_u8();
	for (int i = 0; i < CL; i++) C.ciphertext[i] = nondet_u8();
	C.ciphertext_size = CL;
	uint8_t buf[160]; uint8_t *p = buf; size_t dry = 0, outlen = 0;
	CHECK(sm2_ciphertext_to_der(&C, NULL, &dry) == 1, "dry");
	CHECK(sm2_ciphertext_to_der(&C, &p, &outlen) == 1 && outlen == dry && dry <= sizeof(buf), "dry-run length = bytes written");
	const uint8_t *cp = buf; size_t l = outlen;
	CHECK(sm2_ciphertext_from_der(&B, &cp, &l) == 1 && l == 0, "decodes, consuming everything");
	for (int i = 0; i < 32; i++) CHECK(B.point.x[i] == C.point.x[i] && B.point.y[i] == C.point.y[i] && B.hash[i] == C.hash[i], "same C1, C3");
	CHECK(B.ciphertext_size == CL, "same length");
	for (int i = 0; i < CL; i++) CHECK(B.ciphertext[i] == C.ciphertext[i], "same C2");
}
void h_ciphertext_roundtrip(void)
{
	#ifndef ZMAX
#define ZMAX 2
#endif
	size_t zx = nondet_size(), zy = nondet_size(); ASSUME(zx <= ZMAX && zy <= ZMAX);
	for (size_t a = 0; a <= ZMAX; a++) if (zx == a) {
		for (size_t b = 0; b <= ZMAX; b++) if (zy == b) {
			int v = nondet_int(); ASSUME(v >= 0 && v < 4);
			if (v == 0) der_case(a, b, 0x5a, 0x5a); else if (v == 1) der_case(a, b, 0x85, 0x5a); else if (v == 2) der_case(a, b, 0x5a, 0x85); else der_case(a, b, 0x85, 0x85);
			break; }
		break;
	}
	V_REACH();
}
