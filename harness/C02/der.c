/* C02-b: SM2Cipher DER codec: to_der/from_der round trip for arbitrary coordinates (leading zeros included),
 * dry-run length, exact consumption */
#include <stdio.h>
#include <string.h>
#include <gmssl/sm2.h>
#include "verif.h"
#ifndef CL
#define CL 3
#endif
static void der_case(size_t zx, size_t zy)
{
	SM2_CIPHERTEXT C, B; memset(&C, 0, sizeof(C));
	for (size_t i = 0; i < 32; i++) { C.point.x[i] = (i < zx) ? 0 : nondet_u8(); C.point.y[i] = (i < zy) ? 0 : nondet_u8(); }
	ASSUME(C.point.x[zx] != 0 && C.point.y[zy] != 0);      /* exactly zx / zy leading zero bytes */
	for (int i = 0; i < 32; i++) C.hash[i] = nondet_u8();
	for (int i = 0; i < CL; i++) C.ciphertext[i] = nondet_u8();
	C.ciphertext_size = CL;
	uint8_t buf[160]; uint8_t *p = buf; size_t dry = 0, outlen = 0;
	CHECK(sm2_ciphertext_to_der(&C, NULL, &dry) == 1, "dry");
	CHECK(sm2_ciphertext_to_der(&C, &p, &outlen) == 1 && outlen == dry && dry <= sizeof(buf), "dry-run length = bytes written");
	const uint8_t *cp = buf; size_t l = outlen;
	CHECK(sm2_ciphertext_from_der(&B, &cp, &l) == 1 && l == 0, "decodes, consuming everything");
	for (int i = 0; i < 32; i++) CHECK(B.point.x[i] == C.point.x[i] && B.point.y[i] == C.point.y[i] && B.hash[i] == C.hash[i], "same C1, C3");
	CHECK(B.ciphertext_size == CL, "same length");
	for (int i = 0; i < CL; i++) CHECK(B.ciphertext[i] == C.ciphertext[i], "same C2");
}
void h_ciphertext_roundtrip(void)
{
	size_t zx = nondet_size(), zy = nondet_size(); ASSUME(zx <= 2 && zy <= 2);
	for (size_t a = 0; a <= 2; a++) if (zx == a) {
		for (size_t b = 0; b <= 2; b++) if (zy == b) { der_case(a, b); break; }
		break;
	}
	V_REACH();
}
