/* C02-c: ECDH (src/sm2_exch.c sm2_ecdh / sm2_do_ecdh) over the small group model M4: both parties obtain the coordinates of
 * [dA dB]G; a peer share is used only if it is the uncompressed encoding of a finite curve point. */
#include <stdio.h>
#include <string.h>
#include <gmssl/sm2.h>
#include "verif.h"
#include "sm2_small.h"
#define Q SMALL_Q
void small_on_rand(unsigned idx) { }
static void mk_key(SM2_KEY *key, uint64_t d) { memset(key, 0, sizeof(*key)); key->private_key[0] = d; mp_set(&key->public_key, d % Q); }
static void coords(uint64_t idx, uint8_t xy[64]) { memset(xy, 0, 64); for (int i = 0; i < 8; i++) { xy[31 - i] = (uint8_t)(g_XT[idx] >> (8 * i)); xy[63 - i] = (uint8_t)(g_YT[idx] >> (8 * i)); } }
static void tables(void)
{
	small_init_tables();
	for (unsigned i = 1; i < Q; i++) ASSUME(g_XT[i] != 0 || g_YT[i] != 0);     /* (0,0) is not on the curve (b != 0); the import treats it as the encoding of infinity */
}
void h_ecdh_agree(void)
{
	tables();
	uint64_t da = nondet_u64(), db = nondet_u64(); ASSUME(da >= 1 && da < Q && db >= 1 && db < Q);
	SM2_KEY ka, kb; mk_key(&ka, da); mk_key(&kb, db);
	uint8_t oa[65], ob[65], sa[64], sb[64], want[64];
	oa[0] = 4; coords(da, oa + 1); ob[0] = 4; coords(db, ob + 1);
	CHECK(sm2_ecdh(&ka, ob, 65, sa) == 1, "A accepts B's share");
	CHECK(sm2_ecdh(&kb, oa, 65, sb) == 1, "B accepts A's share");
	coords((da * db) % Q, want);
	for (int i = 0; i < 64; i++) CHECK(sa[i] == want[i] && sb[i] == want[i], "both parties obtain the coordinates of [dA dB]G");
	V_REACH();
}
static void share_case(uint8_t prefix)
{
	uint64_t da = nondet_u64(); ASSUME(da >= 1 && da < Q);
	SM2_KEY ka; mk_key(&ka, da);
	uint8_t o[65], s[64]; size_t n = nondet_size(); ASSUME(n == 65 || n == 64 || n == 1 || n == 0);
	/* share: each coordinate = 24 equal high bytes h, 7 equal middle bytes m, one low byte (table coordinates are < 2q = 26) */
	o[0] = prefix;
	for (int c = 0; c < 2; c++) { uint8_t h = nondet_u8(), m = nondet_u8(); for (int i = 0; i < 24; i++) o[1 + 32 * c + i] = h; for (int i = 24; i < 31; i++) o[1 + 32 * c + i] = m; o[1 + 32 * c + 31] = nondet_u8(); }
	int r = sm2_ecdh(&ka, o, n, s);
	if (r == 1) {
#ifdef WITNESS_ACCEPT
		V_COVER("share accepted");
#endif
		CHECK(n == 65 && o[0] == 4, "only a 65-byte uncompressed encoding is used");
		int found = 0; uint8_t c[64];
		for (uint64_t i = 1; i < Q; i++) { coords(i, c); int eq = 1; for (int j = 0; j < 64; j++) if (c[j] != o[1 + j]) eq = 0; if (eq) { found = 1; uint8_t w[64]; coords((i * da) % Q, w); for (int j = 0; j < 64; j++) CHECK(s[j] == w[j], "output = coordinates of [d]P for the imported P"); } }
		CHECK(found, "the share is a finite point of the curve");
	}
}
void h_ecdh_share_checked(void)
{
	tables();
	/* prefixes 02 / 03 (compressed) are excluded by construction: that path needs the real field square root */
#ifndef PREFIX
#define PREFIX 4
#endif
	share_case(PREFIX);
	V_REACH();
}
