/* C02-a: SM2 public-key encryption, real src/sm2_enc.c over the small-field group model (M4) and the ideal hash (M2). */
#include <stdio.h>
#include <string.h>
#include <gmssl/sm2.h>
#include "verif.h"
#include "sm2_small.h"
#include "sm3_rec.h"

#ifndef ML
#define ML 3
#endif
#define Q SMALL_Q
void small_on_rand(unsigned idx) { }
static void mk_key(SM2_KEY *key, uint64_t d) { memset(key, 0, sizeof(*key)); key->private_key[0] = d; mp_set(&key->public_key, d % Q); }
static void coords(uint64_t idx, uint8_t xy[64]) { memset(xy, 0, 64); for (int i = 0; i < 8; i++) { xy[31 - i] = (uint8_t)(g_XT[idx] >> (8 * i)); xy[63 - i] = (uint8_t)(g_YT[idx] >> (8 * i)); } }
/* direct indexing (reading the recorder through a pointer returned by a helper gave an inconsistent value in cbmc 6.11) */
#define FINB(k, i) (rec_slots[rec_fin[k].slot].buf[i])
#define FINL(k) (rec_fin[k].len)

/* GB/T 32918.4 6.1 for nonce k: C1 = [k]G, (x2,y2) = [k]P, t = KDF(x2||y2, klen), C2 = M xor t, C3 = H(x2||M||y2) */
static void check_ciphertext(const SM2_CIPHERTEXT *C, uint64_t d, uint64_t k, const uint8_t *M, int fin0)
{
	uint8_t c1[64], x2y2[64];
	coords(k % Q, c1); coords((k * d) % Q, x2y2);
	for (int i = 0; i < 64; i++) CHECK(((const uint8_t *)&C->point)[i] == c1[i], "C1 = [k]G for the nonce drawn");
	CHECK(C->ciphertext_size == ML, "C2 length = message length");
	int nkdf = (ML + 31) / 32;
	for (int b = 0; b < nkdf; b++) {
		CHECK(FINL(fin0 + b) == 68, "KDF block input = x2 || y2 || ct");
		for (int i = 0; i < 64; i++) CHECK(FINB(fin0 + b, i) == x2y2[i], "KDF over the coordinates of [k]P");
		CHECK(FINB(fin0 + b, 64) == 0 && FINB(fin0 + b, 65) == 0 && FINB(fin0 + b, 66) == 0 && FINB(fin0 + b, 67) == b + 1, "KDF counter from 1");
		for (int i = 0; i < 32; i++) if (32 * b + i < ML) CHECK(C->ciphertext[32 * b + i] == (uint8_t)(M[32 * b + i] ^ rec_fin[fin0 + b].dgst[i]), "C2 = M xor t");
	}
	CHECK(FINL(fin0 + nkdf) == 64 + ML, "C3 input = x2 || M || y2");
	for (int i = 0; i < 32; i++) CHECK(FINB(fin0 + nkdf, i) == x2y2[i] && FINB(fin0 + nkdf, 32 + ML + i) == x2y2[32 + i], "x2 ... y2");
	for (int i = 0; i < ML; i++) CHECK(FINB(fin0 + nkdf, 32 + i) == M[i], "M");
	for (int i = 0; i < 32; i++) CHECK(C->hash[i] == rec_fin[fin0 + nkdf].dgst[i], "C3 = that digest");
}

void h_encrypt_decrypt(void)
{
	small_init_tables();
	uint64_t d = nondet_u64(); ASSUME(d >= 1 && d <= Q - 2);
	SM2_KEY key; mk_key(&key, d);
	uint8_t M[ML], back[ML + 8]; for (int i = 0; i < ML; i++) M[i] = nondet_u8();
	SM2_CIPHERTEXT C; memset(&C, 0, sizeof(C));
#ifndef WHICH
#define WHICH 1
#endif
	const int which = WHICH; int ret;
	uint64_t k;
	if (which) { ret = sm2_do_encrypt(&key, M, ML, &C); k = g_last_k; }
	else {
		SM2_ENC_PRE_COMP pc; memset(&pc, 0, sizeof(pc));
		k = nondet_u64(); ASSUME(k >= 1 && k < Q);
		pc.k[0] = k; coords(k, (uint8_t *)&pc.C1);
		ret = sm2_do_encrypt_ex(&key, &pc, M, ML, &C);
	}
	/* the all-zero KDF output is the only legitimate reason for not producing a ciphertext */
	int nkdf = (ML + 31) / 32, tzero = 1;
	for (int b = 0; b < nkdf; b++) for (int i = 0; i < 32; i++) if (32 * b + i < ML && rec_fin[b].dgst[i]) tzero = 0;
	if (!which && tzero) { CHECK(ret == 0, "pre-computed path reports an all-zero t"); V_REACH(); return; }
	ASSUME(!tzero);            /* (sm2_do_encrypt retries; retry paths beyond the first draw are cut) */
	CHECK(ret == 1, "encryption succeeds");
	check_ciphertext(&C, d, k, M, 0);
	size_t outlen = 0; int f1 = rec_n_fin;
	CHECK(sm2_do_decrypt(&key, &C, back, &outlen) == 1 && outlen == ML, "decryption of the untouched ciphertext succeeds");
	for (int i = 0; i < ML; i++) CHECK(back[i] == M[i], "decrypt(encrypt(M)) = M");
	V_REACH();
}

/* arbitrary candidate ciphertexts: acceptance implies every condition of GB/T 32918.4 7.1 */
extern int g_from_bytes_calls;
void h_decrypt_sound(void)
{
	small_init_tables();
	uint64_t d = nondet_u64(); ASSUME(d >= 1 && d <= Q - 2);
	SM2_KEY key; mk_key(&key, d);
	SM2_CIPHERTEXT C; memset(&C, 0, sizeof(C));
	uint8_t *cb = (uint8_t *)&C;
	/* C1: either the coordinates of an arbitrary group element, or arbitrary small values (off-curve / zero) */
	uint64_t idx = nondet_u64(); ASSUME(idx < Q);
	if (nondet_bool()) coords(idx, cb); else { cb[31] = nondet_u8(); cb[63] = nondet_u8(); idx = Q; }
	for (int i = 0; i < 32; i++) C.hash[i] = nondet_u8();
	for (int i = 0; i < ML; i++) C.ciphertext[i] = nondet_u8();
	C.ciphertext_size = ML;
	uint8_t out[ML + 8]; size_t outlen = 0;
	int ret = sm2_do_decrypt(&key, &C, out, &outlen);
	if (ret == 1) {
		V_COVER("accept path 1");
		/* C1 must be a finite point of the curve: find it in the tables */
		uint64_t x = 0, y = 0; for (int i = 24; i < 32; i++) { x = (x << 8) | cb[i]; y = (y << 8) | cb[32 + i]; }
		int j = -1; for (unsigned i = 1; i < Q; i++) if (g_XT[i] == x && g_YT[i] == y) j = (int)i;
		CHECK(j >= 1, "C1 is a finite point of the curve");
		uint8_t x2y2[64]; coords(((uint64_t)j * d) % Q, x2y2);
		int nkdf = (ML + 31) / 32, tzero = 1;
		for (int b = 0; b < nkdf; b++) {
			CHECK(FINL(b) == 68, "KDF input"); for (int i = 0; i < 64; i++) CHECK(FINB(b, i) == x2y2[i], "KDF over [d]C1");
			for (int i = 0; i < 32; i++) if (32 * b + i < ML) { if (rec_fin[b].dgst[i]) tzero = 0; CHECK(out[32 * b + i] == (uint8_t)(C.ciphertext[32 * b + i] ^ rec_fin[b].dgst[i]), "M = C2 xor t"); }
		}
		CHECK(!tzero, "all-zero t is refused");
		CHECK(FINL(nkdf) == 64 + ML, "u = H(x2 || M || y2)");
		for (int i = 0; i < 32; i++) CHECK(FINB(nkdf, i) == x2y2[i], "x2 first");
		for (int i = 0; i < 32; i++) CHECK(FINB(nkdf, 32 + ML + i) == x2y2[32 + i], "y2 last");
		for (int i = 0; i < ML; i++) CHECK(FINB(nkdf, 32 + i) == out[i], "M");
		for (int i = 0; i < 32; i++) CHECK(C.hash[i] == rec_fin[nkdf].dgst[i], "all 32 bytes of C3 compared");
		CHECK(outlen == ML, "length");
	}
	V_REACH();
}
