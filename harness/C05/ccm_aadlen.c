/* C04/C05: SM4-CCM encoding of the AAD length l(a) (RFC 3610 2.2): 0 < l(a) < 2^16 - 2^8 -> two octets;
 * 2^16 - 2^8 <= l(a) < 2^32 -> FF FE + four octets.  CBC-MAC stub keeps only the call structure. */
#include <stdio.h>
#include <string.h>
#include <gmssl/sm4.h>
#include <gmssl/sm4_cbc_mac.h>
#include "verif.h"
static int u_n; static uint8_t u_enc[12]; static size_t u_len[6]; static const uint8_t *u_ptr[6];
void sm4_cbc_mac_update(SM4_CBC_MAC_CTX *ctx, const uint8_t *data, size_t len)
{ if (u_n < 6) { u_len[u_n] = len; u_ptr[u_n] = data; if (u_n == 1) for (size_t i = 0; i < 12; i++) if (i < len) u_enc[i] = data[i]; } u_n++; }
void sm4_cbc_mac_finish(SM4_CBC_MAC_CTX *ctx, uint8_t mac[16]) { for (int i = 0; i < 16; i++) mac[i] = nondet_u8(); }
void sm4_encrypt(const SM4_KEY *key, const uint8_t in[16], uint8_t out[16]) { for (int i = 0; i < 16; i++) out[i] = in[i] ^ 0x3c; }
void h_ccm_aadlen(void)
{
	static uint8_t aad[70000];
	size_t aadlen = nondet_size();
	ASSUME(aadlen >= 1 && aadlen <= 70000);
	SM4_KEY key; memset(&key, 0, sizeof(key));
	uint8_t iv[12] = {0}, in[1] = {0}, out[1], tag[16];
	CHECK(sm4_ccm_encrypt(&key, iv, 12, aad, aadlen, in, 1, out, 8, tag) == 1, "encrypt");
	CHECK(u_n >= 3 && u_len[0] == 16 && u_ptr[2] == aad && u_len[2] == aadlen, "B0, encoded l(a), then the AAD itself");
	if (aadlen < 0xFF00) CHECK(u_len[1] == 2 && u_enc[0] == (uint8_t)(aadlen >> 8) && u_enc[1] == (uint8_t)aadlen, "l(a) < 2^16 - 2^8: two octets");
	else CHECK(u_len[1] == 6 && u_enc[0] == 0xff && u_enc[1] == 0xfe && u_enc[2] == 0 && u_enc[3] == (uint8_t)(aadlen >> 16) && u_enc[4] == (uint8_t)(aadlen >> 8) && u_enc[5] == (uint8_t)aadlen, "l(a) >= 2^16 - 2^8: FF FE + four octets");
	V_REACH();
}
