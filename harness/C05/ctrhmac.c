/* C05: SM4-CTR + SM3-HMAC streaming decryption (src/sm4_ctr_sm3_hmac.c).  HMAC = ideal MAC with transcript log,
 * CTR layer = logged stand-in.  Claims: for every 2-way chunking the MAC covers AAD || ciphertext (tag withheld),
 * acceptance requires a complete 32-byte tag equal in every byte, truncated inputs are refused, reads stay in the chunks. */
#include <stdio.h>
#include <string.h>
#include <gmssl/sm4.h>
#include <gmssl/sm3.h>
#include <gmssl/sm4_ctr_sm3_hmac.h>
#include "verif.h"

#define LOGMAX 96
static uint8_t h_log[LOGMAX]; static size_t h_n; static uint8_t h_out[32]; static int h_fin; static const uint8_t *h_key; static size_t h_keylen;
void sm3_hmac_init(SM3_HMAC_CTX *ctx, const uint8_t *key, size_t keylen) { h_key = key; h_keylen = keylen; h_n = 0; }
void sm3_hmac_update(SM3_HMAC_CTX *ctx, const uint8_t *d, size_t n) { __CPROVER_assert(h_n + n <= LOGMAX, "log"); for (size_t i = 0; i < n; i++) h_log[h_n + i] = d[i]; h_n += n; }
void sm3_hmac_finish(SM3_HMAC_CTX *ctx, uint8_t mac[32]) { for (int i = 0; i < 32; i++) { h_out[i] = nondet_u8(); mac[i] = h_out[i]; } h_fin++; }
static uint8_t c_log[LOGMAX]; static size_t c_n; static const uint8_t *c_key, *c_iv;
int sm4_ctr_encrypt_init(SM4_CTR_CTX *ctx, const uint8_t key[16], const uint8_t ctr[16]) { c_key = key; c_iv = ctr; return 1; }
int sm4_ctr_encrypt_update(SM4_CTR_CTX *ctx, const uint8_t *in, size_t inlen, uint8_t *out, size_t *outlen)
{ __CPROVER_assert(c_n + inlen <= LOGMAX, "log"); for (size_t i = 0; i < inlen; i++) { c_log[c_n + i] = in[i]; out[i] = in[i] ^ 0x5c; } c_n += inlen; *outlen = inlen; return 1; }
int sm4_ctr_encrypt_finish(SM4_CTR_CTX *ctx, uint8_t *out, size_t *outlen) { *outlen = 0; return 1; }

#ifndef N
#define N 40
#endif
#ifndef TOTAL
#define TOTAL (N + 32)
#endif
#ifndef AADLEN
#define AADLEN 3
#endif
static uint8_t key[48], iv[16], aad[AADLEN ? AADLEN : 1];
static void stream_case(size_t total, size_t cut)       /* total = bytes offered (ciphertext || tag, possibly truncated) */
{
	uint8_t all[N + 32];
	for (size_t i = 0; i < total; i++) all[i] = nondet_u8();
	uint8_t *c1 = malloc(cut ? cut : 1), *c2 = malloc(total - cut ? total - cut : 1), out[N + 64]; ASSUME(c1 && c2);
	for (size_t i = 0; i < cut; i++) c1[i] = all[i];
	for (size_t i = cut; i < total; i++) c2[i - cut] = all[i];
	SM4_CTR_SM3_HMAC_CTX ctx; size_t l = 0, produced = 0;
	CHECK(sm4_ctr_sm3_hmac_decrypt_init(&ctx, key, iv, aad, AADLEN) == 1, "init");
	CHECK(h_key == key + 16 && h_keylen == 32 && c_key == key && c_iv == iv, "MAC key = key[16..48), cipher key = key[0..16), counter = iv");
	if (cut) { CHECK(sm4_ctr_sm3_hmac_decrypt_update(&ctx, c1, cut, out, &l) == 1, "update 1"); produced += l; }
	if (total - cut) { CHECK(sm4_ctr_sm3_hmac_decrypt_update(&ctx, c2, total - cut, out + produced, &l) == 1, "update 2"); produced += l; }
	int ret = sm4_ctr_sm3_hmac_decrypt_finish(&ctx, out + produced, &l);
	if (total < 32) { CHECK(ret != 1, "input shorter than a tag is refused"); return; }
	size_t n = total - 32;
	CHECK(h_fin == 1, "one MAC");
#ifdef EXPECT_IV
	{ int has_iv = (h_n == 16 + AADLEN + n); for (int i = 0; i < 16; i++) if (h_log[i] != iv[i]) has_iv = 0;
	  CHECK(has_iv, "the MAC input starts with the IV (changing the nonce must be detected)"); return; }
#endif
	CHECK(h_n == AADLEN + n, "MAC over AAD || ciphertext without the last 32 bytes");
	for (int i = 0; i < AADLEN; i++) CHECK(h_log[i] == aad[i], "AAD");
	for (size_t i = 0; i < n; i++) CHECK(h_log[AADLEN + i] == all[i], "ciphertext bytes in order");
	int match = 1; for (int i = 0; i < 32; i++) if (h_out[i] != all[n + i]) match = 0;
#if TOTAL >= 32
	if (ret == 1) V_COVER("ctr-hmac accept");
#endif
	CHECK((ret == 1) == match, "accept <=> all 32 tag bytes match");
	CHECK(c_n == n, "exactly the ciphertext was decrypted");
}
void h_ctrhmac_stream(void)
{
	for (int i = 0; i < 48; i++) key[i] = nondet_u8();
	for (int i = 0; i < 16; i++) iv[i] = nondet_u8();
	for (int i = 0; i < AADLEN; i++) aad[i] = nondet_u8();
	size_t cut = nondet_size();
#ifndef TOTAL
#define TOTAL (N + 32)
#endif
#ifndef CMIN
#define CMIN 0
#define CMAX TOTAL
#endif
	ASSUME(cut >= CMIN && cut <= CMAX && cut <= TOTAL);
	for (size_t k = CMIN; k <= CMAX && k <= TOTAL; k++) if (cut == k) { stream_case(TOTAL, k); break; }
	V_REACH();
}
