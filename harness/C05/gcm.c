/* C05 / C04: SM4-GCM (src/sm4_gcm.c).  GHASH = ideal MAC at the ghash / ghash_init/update/finish interface
 * (transcript log, fresh arbitrary output, equal transcripts <=> equal outputs); the CTR32 keystream layer and the
 * block cipher are simple invertible stand-ins with logs (their correctness is C04's subject).
 * Claims: (1) one-shot decrypt accepts iff all taglen tag bytes equal E(Y0) xor GHASH(H, AAD, C) computed over exactly
 * the caller's AAD and ciphertext, with Y0 derived from the IV; (2) streaming decrypt, for every 2-way chunking and
 * every tag length 12..16, authenticates exactly the ciphertext without its last taglen bytes, compares all taglen
 * bytes, never reads outside the chunks it is given; (3) decrypt(encrypt(m)) succeeds. */
#include <stdio.h>
#include <string.h>
#include <gmssl/sm4.h>
#include <gmssl/ghash.h>
#include "verif.h"

#define LOGMAX 64
/* ---- block cipher stand-in: E(x) = x xor K-dependent mask, logged (only E(0^128) and E(Y0) matter here) ---- */
static uint8_t g_mask[16];
void sm4_set_encrypt_key(SM4_KEY *key, const uint8_t raw[16]) { memset(key, 0, sizeof(*key)); key->rk[1] = 1; }
void sm4_encrypt(const SM4_KEY *key, const uint8_t in[16], uint8_t out[16]) { for (int i = 0; i < 16; i++) out[i] = in[i] ^ g_mask[i]; }
static void ctr32_incr_ref(uint8_t a[16]) { for (int i = 15; i >= 12; i--) { a[i]++; if (a[i]) break; } }
/* ---- CTR32 layer: logs the bytes it is asked to process, output = input xor 0x5c (position independent stand-in) ---- */
static uint8_t c_log[LOGMAX]; static size_t c_n; static uint8_t c_ctr0[16];
void sm4_ctr32_encrypt(const SM4_KEY *key, uint8_t ctr[16], const uint8_t *in, size_t inlen, uint8_t *out)
{ memcpy(c_ctr0, ctr, 16); __CPROVER_assert(c_n + inlen <= LOGMAX, "log"); for (size_t i = 0; i < inlen; i++) { c_log[c_n + i] = in[i]; out[i] = in[i] ^ 0x5c; } c_n += inlen; }
int sm4_ctr32_encrypt_init(SM4_CTR_CTX *ctx, const uint8_t key[16], const uint8_t ctr[16]) { memset(ctx, 0, sizeof(*ctx)); ctx->sm4_key.rk[1] = 1; return 1; }
int sm4_ctr32_encrypt_update(SM4_CTR_CTX *ctx, const uint8_t *in, size_t inlen, uint8_t *out, size_t *outlen)
{ __CPROVER_assert(c_n + inlen <= LOGMAX, "log"); for (size_t i = 0; i < inlen; i++) { c_log[c_n + i] = in[i]; out[i] = in[i] ^ 0x5c; } c_n += inlen; *outlen = inlen; return 1; }
int sm4_ctr32_encrypt_finish(SM4_CTR_CTX *ctx, uint8_t *out, size_t *outlen) { memcpy(c_ctr0, ctx->ctr, 16); *outlen = 0; return 1; }
/* ---- GHASH ideal MAC ---- */
typedef struct { uint8_t h[16], aad[LOGMAX], c[LOGMAX], out[16]; size_t aadlen, clen; } GLOG;
static GLOG g_log[3]; static int g_n; static GLOG g_cur;
static int same_g(const GLOG *a, const GLOG *b)
{
	if (a->aadlen != b->aadlen || a->clen != b->clen) return 0;
	for (int i = 0; i < 16; i++) if (a->h[i] != b->h[i]) return 0;
	for (size_t i = 0; i < LOGMAX; i++) { if (i < a->aadlen && a->aad[i] != b->aad[i]) return 0; if (i < a->clen && a->c[i] != b->c[i]) return 0; }
	return 1;
}
static void g_finish(uint8_t out[16])
{
	__CPROVER_assert(g_n < 3, "ghash log");
	for (int i = 0; i < 16; i++) g_cur.out[i] = nondet_u8();
	for (int j = 0; j < g_n; j++) { int so = 1; for (int i = 0; i < 16; i++) if (g_log[j].out[i] != g_cur.out[i]) so = 0; ASSUME(so == same_g(&g_log[j], &g_cur)); }
	g_log[g_n++] = g_cur;
	memcpy(out, g_cur.out, 16);
}
void ghash(const uint8_t h[16], const uint8_t *aad, size_t aadlen, const uint8_t *c, size_t clen, uint8_t out[16])
{
	__CPROVER_assert(aadlen <= LOGMAX && clen <= LOGMAX, "log");
	memset(&g_cur, 0, sizeof(g_cur)); memcpy(g_cur.h, h, 16);
	for (size_t i = 0; i < aadlen; i++) g_cur.aad[i] = aad[i];
	for (size_t i = 0; i < clen; i++) g_cur.c[i] = c[i];
	g_cur.aadlen = aadlen; g_cur.clen = clen;
	g_finish(out);
}
void ghash_init(GHASH_CTX *ctx, const uint8_t h[16], const uint8_t *aad, size_t aadlen)
{ memset(ctx, 0, sizeof(*ctx)); memset(&g_cur, 0, sizeof(g_cur)); memcpy(g_cur.h, h, 16); for (size_t i = 0; i < aadlen; i++) g_cur.aad[i] = aad[i]; g_cur.aadlen = aadlen; }
void ghash_update(GHASH_CTX *ctx, const uint8_t *c, size_t clen)
{ __CPROVER_assert(g_cur.clen + clen <= LOGMAX, "log"); for (size_t i = 0; i < clen; i++) g_cur.c[g_cur.clen + i] = c[i]; g_cur.clen += clen; }
void ghash_finish(GHASH_CTX *ctx, uint8_t out[16]) { g_finish(out); }

#ifndef N
#define N 5
#endif
#ifndef AADLEN
#define AADLEN 3
#endif
#ifndef TAGLEN
#define TAGLEN 16
#endif
static uint8_t raw[16], iv[12], aad[AADLEN ? AADLEN : 1];
static void setup(void)
{
	for (int i = 0; i < 16; i++) { raw[i] = nondet_u8(); g_mask[i] = nondet_u8(); }
	for (int i = 0; i < 12; i++) iv[i] = nondet_u8();
	for (int i = 0; i < AADLEN; i++) aad[i] = nondet_u8();
}
static void expect_tag(const GLOG *g, uint8_t T[16])
{
	uint8_t Y0[16]; memcpy(Y0, iv, 12); Y0[12] = Y0[13] = Y0[14] = 0; Y0[15] = 1;
	for (int i = 0; i < 16; i++) T[i] = (Y0[i] ^ g_mask[i]) ^ g->out[i];
}
static void check_glog(const GLOG *g, const uint8_t *ct, size_t n)
{
	for (int i = 0; i < 16; i++) CHECK(g->h[i] == g_mask[i], "GHASH key H = E(0^128)");
	CHECK(g->aadlen == AADLEN && g->clen == n, "GHASH over the whole AAD and the whole ciphertext (tag excluded)");
	for (int i = 0; i < AADLEN; i++) CHECK(g->aad[i] == aad[i], "AAD bytes");
	for (size_t i = 0; i < n; i++) CHECK(g->c[i] == ct[i], "ciphertext bytes, in order");
}

void h_gcm_oneshot(void)
{
	setup();
	SM4_KEY key; sm4_set_encrypt_key(&key, raw);
	uint8_t *ct = malloc(N ? N : 1), *tag = malloc(TAGLEN), *out = malloc(N ? N : 1); ASSUME(ct && tag && out);
	for (int i = 0; i < N; i++) ct[i] = nondet_u8();
	for (int i = 0; i < TAGLEN; i++) tag[i] = nondet_u8();
	int ret = sm4_gcm_decrypt(&key, iv, 12, aad, AADLEN, ct, N, tag, TAGLEN, out);
	CHECK(g_n == 1, "one GHASH computation");
	check_glog(&g_log[0], ct, N);
	uint8_t T[16]; expect_tag(&g_log[0], T);
	int match = 1; for (int i = 0; i < TAGLEN; i++) if (T[i] != tag[i]) match = 0;
	CHECK((ret == 1) == match, "accept <=> every one of the taglen tag bytes equals E(Y0) xor GHASH");
	if (ret == 1) {
		V_COVER("accept path 1"); uint8_t y1[16]; memcpy(y1, iv, 12); y1[12] = y1[13] = y1[14] = 0; y1[15] = 2;
		for (int i = 0; i < 16; i++) CHECK(c_ctr0[i] == y1[i], "payload decrypted with counter inc32(Y0)");
		CHECK(c_n == N, "whole ciphertext decrypted"); }
	else CHECK(c_n == 0, "no plaintext released on failure");
	V_REACH();
}
void h_gcm_roundtrip(void)
{
	setup();
	SM4_KEY key; sm4_set_encrypt_key(&key, raw);
	uint8_t pt[N ? N : 1], ct[N ? N : 1], tag[16], back[N ? N : 1];
	for (int i = 0; i < N; i++) pt[i] = nondet_u8();
	CHECK(sm4_gcm_encrypt(&key, iv, 12, aad, AADLEN, pt, N, ct, TAGLEN, tag) == 1, "encrypt");
	CHECK(sm4_gcm_decrypt(&key, iv, 12, aad, AADLEN, ct, N, tag, TAGLEN, back) == 1, "decrypt accepts the untouched output");
	for (int i = 0; i < N; i++) CHECK(back[i] == pt[i], "plaintext restored");
	V_REACH();
}

/* streaming decrypt: input = ciphertext (N) || tag (TAGLEN), fed as [0,cut) and [cut, N+TAGLEN), each chunk in an
 * exact-size object */
static void stream_case(size_t cut)
{
	size_t total = N + TAGLEN;
	uint8_t all[N + 16];
	for (size_t i = 0; i < total; i++) all[i] = nondet_u8();
	uint8_t *c1 = malloc(cut ? cut : 1), *c2 = malloc(total - cut ? total - cut : 1), out[N + 48]; ASSUME(c1 && c2);
	for (size_t i = 0; i < cut; i++) c1[i] = all[i];
	for (size_t i = cut; i < total; i++) c2[i - cut] = all[i];
	SM4_GCM_CTX ctx; size_t l = 0, produced = 0;
	CHECK(sm4_gcm_decrypt_init(&ctx, raw, 16, iv, 12, aad, AADLEN, TAGLEN) == 1, "init");
	if (cut) { CHECK(sm4_gcm_decrypt_update(&ctx, c1, cut, out, &l) == 1, "update 1"); produced += l; }
	if (total - cut) { CHECK(sm4_gcm_decrypt_update(&ctx, c2, total - cut, out + produced, &l) == 1, "update 2"); produced += l; }
	int ret = sm4_gcm_decrypt_finish(&ctx, out + produced, &l);
	CHECK(g_n == 1, "one GHASH computation");
	check_glog(&g_log[0], all, N);
	uint8_t T[16]; expect_tag(&g_log[0], T);
	int match = 1; for (int i = 0; i < TAGLEN; i++) if (T[i] != all[N + i]) match = 0;
	CHECK((ret == 1) == match, "accept <=> the last taglen input bytes equal the expected tag in every byte");
	CHECK(c_n == N, "exactly the ciphertext (tag withheld) was decrypted");
	for (int i = 0; i < N; i++) CHECK(c_log[i] == all[i], "ciphertext bytes decrypted in order");
}
void h_gcm_stream(void)
{
	setup();
	size_t cut = nondet_size();
#ifndef CMIN
#define CMIN 0
#define CMAX (N + TAGLEN)
#endif
	ASSUME(cut >= CMIN && cut <= CMAX && cut <= N + TAGLEN);
	for (size_t k = CMIN; k <= CMAX && k <= N + TAGLEN; k++) if (cut == k) { stream_case(k); break; }
	V_REACH();
}
