/* C05 / C04: SM4-CCM (src/sm4_ccm.c) against RFC 3610 / SP 800-38C formatting written here.
 * CBC-MAC = transcript recorder returning a fresh arbitrary MAC; block cipher = logged stand-in.
 * Claims: the MAC input is B0 || encoded AAD (zero padded) || payload (zero padded) exactly as the standard formats it;
 * decrypt accepts iff all taglen tag bytes equal MAC xor E(A0); decrypt(encrypt(m)) succeeds. */
#include <stdio.h>
#include <string.h>
#include <gmssl/sm4.h>
#include <gmssl/sm4_cbc_mac.h>
#include "verif.h"

#ifndef N
#define N 5
#endif
#ifndef AADLEN
#define AADLEN 14
#endif
#ifndef IVLEN
#define IVLEN 12
#endif
#ifndef TAGLEN
#define TAGLEN 8
#endif
#define LOGMAX 112
static uint8_t m_log[LOGMAX]; static size_t m_n; static uint8_t m_out[2][16]; static int m_fin; static uint8_t m_prev[LOGMAX]; static size_t m_prev_n;
void sm4_cbc_mac_update(SM4_CBC_MAC_CTX *ctx, const uint8_t *data, size_t len)
{ __CPROVER_assert(m_n + len <= LOGMAX, "mac log"); for (size_t i = 0; i < len; i++) m_log[m_n + i] = data[i]; m_n += len; }
void sm4_cbc_mac_finish(SM4_CBC_MAC_CTX *ctx, uint8_t mac[16])
{
	__CPROVER_assert(m_fin < 2, "mac fin");
	for (int i = 0; i < 16; i++) m_out[m_fin][i] = nondet_u8();
	if (m_fin == 1) { /* deterministic + collision free w.r.t. the first computation */
		int same_s = (m_prev_n == m_n); for (size_t i = 0; i < LOGMAX; i++) if (i < m_n && m_prev[i] != m_log[i]) same_s = 0;
		int same_o = 1; for (int i = 0; i < 16; i++) if (m_out[0][i] != m_out[1][i]) same_o = 0;
		ASSUME(same_s == same_o);
	}
	memcpy(mac, m_out[m_fin], 16); m_fin++;
	memcpy(m_prev, m_log, LOGMAX); m_prev_n = m_n; m_n = 0;
}
static uint8_t g_mask[16];
void sm4_encrypt(const SM4_KEY *key, const uint8_t in[16], uint8_t out[16]) { for (int i = 0; i < 16; i++) out[i] = in[i] ^ g_mask[i]; }

static uint8_t iv[IVLEN], aad[AADLEN ? AADLEN : 1];
/* RFC 3610 2.2: B0, encoded l(a), padding */
static size_t expected_mac_input(const uint8_t *payload, uint8_t *B)
{
	size_t L = 15 - IVLEN, n = 0;
	B[0] = (uint8_t)((AADLEN > 0 ? 0x40 : 0) | (((TAGLEN - 2) / 2) << 3) | (L - 1));
	memcpy(B + 1, iv, IVLEN);
	for (size_t i = 0; i < L; i++) B[15 - i] = (uint8_t)((i < 8) ? ((uint64_t)N >> (8 * i)) : 0);
	n = 16;
	if (AADLEN > 0) {
		B[n++] = (uint8_t)(AADLEN >> 8); B[n++] = (uint8_t)AADLEN;          /* 0 < l(a) < 2^16 - 2^8 */
		for (int i = 0; i < AADLEN; i++) B[n++] = aad[i];
		while (n % 16) B[n++] = 0;
	}
	for (int i = 0; i < N; i++) B[n++] = payload[i];
	while (n % 16) B[n++] = 0;
	return n;
}
static void check_mac_input(const uint8_t *payload)
{
	uint8_t B[LOGMAX]; size_t n = expected_mac_input(payload, B);
	CHECK(m_prev_n == n, "CBC-MAC input length = B0 + padded encoded AAD + padded payload (RFC 3610)");
	for (size_t i = 0; i < n; i++) CHECK(m_prev[i] == B[i], "CBC-MAC input bytes = RFC 3610 formatting");
}
static void setup(void)
{
	for (int i = 0; i < 16; i++) g_mask[i] = nondet_u8();
	for (int i = 0; i < IVLEN; i++) iv[i] = nondet_u8();
	for (int i = 0; i < AADLEN; i++) aad[i] = nondet_u8();
}
void h_ccm_decrypt(void)
{
	setup();
	SM4_KEY key; memset(&key, 0, sizeof(key));
	uint8_t *ct = malloc(N ? N : 1), *tag = malloc(TAGLEN), out[N ? N : 1]; ASSUME(ct && tag);
	for (int i = 0; i < N; i++) ct[i] = nondet_u8();
	for (int i = 0; i < TAGLEN; i++) tag[i] = nondet_u8();
	int ret = sm4_ccm_decrypt(&key, iv, IVLEN, AADLEN ? aad : NULL, AADLEN, ct, N, tag, TAGLEN, out);
	CHECK(m_fin == 1, "one CBC-MAC");
	check_mac_input(out);                       /* the MAC is over the decrypted payload */
	uint8_t A0[16]; memset(A0, 0, 16); A0[0] = (uint8_t)(15 - IVLEN - 1); memcpy(A0 + 1, iv, IVLEN);
	int match = 1; for (int i = 0; i < TAGLEN; i++) if ((uint8_t)(m_out[0][i] ^ A0[i] ^ g_mask[i]) != tag[i]) match = 0;
	if (ret == 1) V_COVER("ccm accept");
	CHECK((ret == 1) == match, "accept <=> every one of the taglen tag bytes equals MAC xor E(A0)");
	V_REACH();
}
void h_ccm_roundtrip(void)
{
	setup();
	SM4_KEY key; memset(&key, 0, sizeof(key));
	uint8_t pt[N ? N : 1], ct[N ? N : 1], tag[16], back[N ? N : 1];
	for (int i = 0; i < N; i++) pt[i] = nondet_u8();
	CHECK(sm4_ccm_encrypt(&key, iv, IVLEN, AADLEN ? aad : NULL, AADLEN, pt, N, ct, TAGLEN, tag) == 1, "encrypt");
	check_mac_input(pt);
	CHECK(sm4_ccm_decrypt(&key, iv, IVLEN, AADLEN ? aad : NULL, AADLEN, ct, N, tag, TAGLEN, back) == 1, "decrypt accepts the untouched output");
	for (int i = 0; i < N; i++) CHECK(back[i] == pt[i], "plaintext restored");
	V_REACH();
}
