/* C04/C05: GHASH (src/ghash.c) = the SP 800-38D chain X_i = (X_{i-1} xor B_i) * H over blocks
 * pad16(A) || pad16(C) || len64(A) || len64(C), with gf128_mul an uninterpreted function (its arithmetic is a
 * separate C04-p subject); one-shot and streaming (2 chunks) interfaces. */
#include <stdio.h>
#include <string.h>
#include <gmssl/ghash.h>
#include <gmssl/gf128.h>
#include "verif.h"
typedef unsigned __CPROVER_bitvector[128] b128;
b128 __CPROVER_uninterpreted_gmul(b128 a, b128 b);
void gf128_mul(gf128_t r, const gf128_t a, const gf128_t b)
{
	b128 x = ((b128)a[1] << 64) | a[0], y = ((b128)b[1] << 64) | b[0];
	b128 z = __CPROVER_uninterpreted_gmul(x, y);
	r[0] = (uint64_t)z; r[1] = (uint64_t)(z >> 64);
}
#ifndef AL
#define AL 16
#endif
#ifndef CL
#define CL 17
#endif
static void ref(const uint8_t h[16], const uint8_t *a, const uint8_t *c, uint8_t out[16])
{
	gf128_t H, X, B; uint8_t blk[16];
	gf128_from_bytes(H, h); gf128_set_zero(X);
	for (size_t off = 0; off < AL; off += 16) { memset(blk, 0, 16); for (size_t i = 0; i < 16 && off + i < AL; i++) blk[i] = a[off + i]; gf128_from_bytes(B, blk); gf128_add(X, X, B); gf128_mul(X, X, H); }
	for (size_t off = 0; off < CL; off += 16) { memset(blk, 0, 16); for (size_t i = 0; i < 16 && off + i < CL; i++) blk[i] = c[off + i]; gf128_from_bytes(B, blk); gf128_add(X, X, B); gf128_mul(X, X, H); }
	memset(blk, 0, 16); uint64_t ab = (uint64_t)AL * 8, cb = (uint64_t)CL * 8;
	for (int i = 0; i < 8; i++) { blk[7 - i] = (uint8_t)(ab >> (8 * i)); blk[15 - i] = (uint8_t)(cb >> (8 * i)); }
	gf128_from_bytes(B, blk); gf128_add(X, X, B); gf128_mul(X, X, H);
	gf128_to_bytes(X, out);
}
void h_ghash(void)
{
	uint8_t h[16], a[AL ? AL : 1], c[CL ? CL : 1], r[16], o1[16], o2[16];
	for (int i = 0; i < 16; i++) h[i] = nondet_u8();
	for (int i = 0; i < AL; i++) a[i] = nondet_u8();
	for (int i = 0; i < CL; i++) c[i] = nondet_u8();
	ref(h, a, c, r);
	ghash(h, a, AL, c, CL, o1);
	for (int i = 0; i < 16; i++) CHECK(o1[i] == r[i], "ghash() = SP 800-38D GHASH over every AAD and ciphertext byte");
#ifndef CMIN
#define CMIN 0
#define CMAX CL
#endif
	size_t cut = nondet_size(); ASSUME(cut >= CMIN && cut <= CMAX && cut <= CL);
	for (size_t k = CMIN; k <= CMAX && k <= CL; k++) if (cut == k) {
		GHASH_CTX ctx; ghash_init(&ctx, h, a, AL); ghash_update(&ctx, c, k); ghash_update(&ctx, c + k, CL - k); ghash_finish(&ctx, o2);
		for (int i = 0; i < 16; i++) CHECK(o2[i] == r[i], "streaming GHASH = one-shot, any 2-way chunking");
		break;
	}
	V_REACH();
}
