/* C06: records and handshake messages received from the peer.
 * recv() is an arbitrary byte source with arbitrary short reads (M1); buffers have exactly their declared size. */
#include <stdio.h>
#include <string.h>
#include <errno.h>
#include <sys/types.h>
#include <sys/socket.h>
#include <unistd.h>
#include <gmssl/tls.h>
#include <gmssl/x509.h>
#include "verif.h"

/* ---- tls_record_recv ---- */
static size_t g_recv_total; static uint8_t *g_record_base;
ssize_t recv(int fd, void *buf, size_t len, int flags)
{
	__CPROVER_assert(__CPROVER_w_ok(buf, len), "recv() destination has room for the bytes requested");
	__CPROVER_assert((uint8_t *)buf == g_record_base + g_recv_total, "received bytes are stored contiguously in arrival order (short reads included)");
	ssize_t n = (ssize_t)nondet_size();
	ASSUME(n >= 1 && (size_t)n <= len);            /* arbitrary short read; (errors / EOF: separate obligation) */
	/* only the 5 header bytes influence control flow: give them arbitrary values, leave the body unspecified */
	if (g_recv_total < 5) for (size_t i = 0; i < (size_t)n && g_recv_total + i < 5; i++) ((uint8_t *)buf)[i] = nondet_u8();
	g_recv_total += (size_t)n;
	return n;
}
int usleep(unsigned usec) { return 0; }
void perror(const char *s) { }
void h_record_recv(void)
{
	uint8_t *record = malloc(TLS_MAX_RECORD_SIZE); ASSUME(record);      /* the size every caller provides */
	g_record_base = record;
	size_t recordlen = 0;
	int ret = tls_record_recv(record, &recordlen, 3);
	if (ret == 1) {
		CHECK(recordlen >= 5 && recordlen <= TLS_MAX_RECORD_SIZE, "accepted record fits the record buffer");
		CHECK(recordlen == 5 + (((size_t)record[3] << 8) | record[4]), "length = header + announced fragment length");
		CHECK(g_recv_total == recordlen, "exactly the record was read from the socket");
	}
	V_REACH();
}

/* ---- certificate list capacity (TLS 1.2 / TLCP Certificate message) ---- */
#ifdef CERTLIST
int x509_cert_from_der(const uint8_t **a, size_t *alen, const uint8_t **in, size_t *inlen)
{	/* abstract parser: the whole remaining slice is one certificate */
	if (*inlen == 0) return 0;
	*a = *in; *alen = *inlen; *in += *inlen; *inlen = 0; return 1;
}
int x509_cert_to_der(const uint8_t *a, size_t alen, uint8_t **out, size_t *outlen)
{
	__CPROVER_assert(__CPROVER_w_ok(*out, alen), "certificate copied inside the caller's certificate buffer");
	*out += alen; *outlen += alen; return 1;
}
int asn1_length_is_zero(size_t len) { return len ? -1 : 1; }
const char *tls_protocol_name(int p) { return "x"; }
const char *tls_handshake_type_name(int t) { return "x"; }
#ifndef NCERT
#define NCERT 3
#endif
void h_cert_list_capacity(void)
{
	/* a Certificate message with NCERT entries whose lengths are arbitrary; contents irrelevant */
	static uint8_t record[TLS_MAX_RECORD_SIZE];
	size_t l[NCERT], total = 0;
	for (int i = 0; i < NCERT; i++) { l[i] = nondet_size(); ASSUME(l[i] <= TLS_MAX_PLAINTEXT_SIZE); total += 3 + l[i]; }
	ASSUME(total + 3 + 4 <= TLS_MAX_PLAINTEXT_SIZE);
	record[0] = TLS_record_handshake; record[1] = 3; record[2] = 3;
	size_t hl = total + 3 + 4; record[3] = (uint8_t)(hl >> 8); record[4] = (uint8_t)hl;
	record[5] = TLS_handshake_certificate; size_t bl = total + 3; record[6] = (uint8_t)(bl >> 16); record[7] = (uint8_t)(bl >> 8); record[8] = (uint8_t)bl;
	record[9] = (uint8_t)(total >> 16); record[10] = (uint8_t)(total >> 8); record[11] = (uint8_t)total;
	size_t off = 12;
	for (int i = 0; i < NCERT; i++) { record[off] = (uint8_t)(l[i] >> 16); record[off + 1] = (uint8_t)(l[i] >> 8); record[off + 2] = (uint8_t)l[i]; off += 3 + l[i]; }
	uint8_t *certs = malloc(TLS_MAX_CERTIFICATES_SIZE); ASSUME(certs);   /* = sizeof(conn->server_certs) */
	size_t certslen = 0;
	int ret = tls_record_get_handshake_certificate(record, certs, &certslen);
	if (ret == 1) CHECK(certslen <= TLS_MAX_CERTIFICATES_SIZE, "stored chain fits conn->server_certs");
	V_REACH();
}
#endif
