/* C06: small decoders / name tables on arbitrary values */
#include <stdio.h>
#include <string.h>
#include <gmssl/asn1.h>
#include "verif.h"
void h_tag_name(void)
{
	int tag = nondet_int();
	const char *s = asn1_tag_name(tag);
	if (s) { char c = s[0]; (void)c; }     /* dereference: the returned pointer must be a valid string */
	if (tag >= 0x80 && tag <= 0xbf) CHECK(s != NULL && s[0] == '[', "context-specific tags have a name");
	V_REACH();
}
