/* C06: DER parsers of the X.509 / CMS / PKCS#8 layer on arbitrary bytes.  The input object has exactly `len` bytes
 * (any over-read is a bounds violation); the oracle is CBMC's built-in memory checks plus "the cursor stays inside". */
#include <stdio.h>
#include <string.h>
#include <time.h>
#include <gmssl/x509.h>
#include <gmssl/x509_alg.h>
#include <gmssl/x509_crl.h>
#include <gmssl/x509_req.h>
#include <gmssl/cms.h>
#include <gmssl/pkcs8.h>
#include <gmssl/sm2.h>
#include "verif.h"
#ifndef LEN
#define LEN 10
#endif
#ifndef WHICH
#define WHICH 0
#endif
int sm2_z256_point_from_octets(SM2_Z256_POINT *P, const uint8_t *in, size_t inlen) { if (inlen) { uint8_t a = in[0], b = in[inlen - 1]; (void)a; (void)b; } return nondet_bool() ? 1 : -1; }
void h_parse(void)
{
	uint8_t *buf = malloc(LEN ? LEN : 1); ASSUME(buf);
	for (size_t i = 0; i < LEN; i++) buf[i] = nondet_u8();
	const uint8_t *p = buf; size_t l = LEN; int ret = -9;
	const uint8_t *d1 = NULL, *d2 = NULL, *d3 = NULL; size_t n1 = 0, n2 = 0, n3 = 0; int i1, i2, i3, i4; time_t t1, t2;
#if WHICH == 0
	ret = x509_signature_algor_from_der(&i1, &p, &l);
#elif WHICH == 1
	ret = x509_public_key_algor_from_der(&i1, &i2, &p, &l);
#elif WHICH == 2
	ret = x509_encryption_algor_from_der(&i1, &d1, &n1, &p, &l);
#elif WHICH == 3
	ret = x509_digest_algor_from_der(&i1, &p, &l);
#elif WHICH == 4
	ret = x509_time_from_der(&t1, &p, &l);
#elif WHICH == 5
	ret = x509_validity_from_der(&t1, &t2, &p, &l);
#elif WHICH == 6
	ret = x509_explicit_exts_from_der(3, &d1, &n1, &p, &l);
#elif WHICH == 7
	ret = x509_cert_from_der(&d1, &n1, &p, &l);
	if (ret == 1) { (void)x509_cert_get_subject(d1, n1, &d2, &n2); (void)x509_cert_get_issuer_and_serial_number(d1, n1, &d2, &n2, &d3, &n3); }
#elif WHICH == 8
	ret = x509_crl_from_der(&d1, &n1, &p, &l);
#elif WHICH == 9
	ret = x509_req_from_der(&d1, &n1, &p, &l);
#elif WHICH == 10
	ret = cms_content_info_from_der(&i1, &d1, &n1, &p, &l);
#elif WHICH == 11
	ret = pkcs8_enced_private_key_info_from_der(&d1, &n1, &i1, &i2, &i3, &i4, &d2, &n2, &d3, &n3, &p, &l);
#elif WHICH == 12
	{ SM2_KEY k; ret = sm2_public_key_info_from_der(&k, &p, &l); }
#endif
	if (ret == 1) {
		CHECK(p >= buf && p <= buf + LEN && l == (size_t)(buf + LEN - p), "cursor and remaining length stay consistent and inside the input");
		if (d1) CHECK(d1 >= buf && d1 + n1 <= buf + LEN, "returned slice lies inside the input");
		if (d2) CHECK(d2 >= buf && d2 + n2 <= buf + LEN, "returned slice lies inside the input");
		if (d3) CHECK(d3 >= buf && d3 + n3 <= buf + LEN, "returned slice lies inside the input");
	}
	V_REACH();
}
