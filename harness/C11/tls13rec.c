/* C11: TLS 1.3 record protection (tls13_gcm_encrypt/decrypt, tls13_record_encrypt/decrypt), real tls13.c
 * + tls_trace.c (tls_record_type_name).  SM4-GCM = ideal AEAD (lazy-sampled): sealing logs
 * (nonce, aad, plaintext) and returns fresh ciphertext+tag; opening succeeds only on exactly a logged
 * (nonce, aad, ciphertext, tag) and returns the logged plaintext - or, in the arbitrary-body obligations,
 * returns a harness-chosen plaintext (the only thing an ideal AEAD guarantees about an accepted input
 * is that some sender sealed it). */
#include <stdio.h>
#include <string.h>
#include <gmssl/tls.h>
#include <gmssl/block_cipher.h>
#include "verif.h"

#ifndef PMAX
#define PMAX 12
#endif
#ifndef PMIN
#define PMIN 0
#endif
#define GMAX 64
static const BLOCK_CIPHER sm4_desc = { 0 };
const BLOCK_CIPHER *BLOCK_CIPHER_sm4(void) { return &sm4_desc; }

static uint8_t l_nonce[12], l_aad[5], l_pt[GMAX], l_ct[GMAX], l_tag[16]; static size_t l_len; static int l_sealed;
static int g_mode;           /* 0 = honest table, 1 = arbitrary accepted plaintext, 2 = reject */
static uint8_t g_plain[GMAX];
static int g_open_calls; static size_t g_open_len; static uint8_t o_nonce[12], o_aad[5];

int sm4_gcm_encrypt(const SM4_KEY *key, const uint8_t *iv, size_t ivlen, const uint8_t *aad, size_t aadlen,
	const uint8_t *in, size_t inlen, uint8_t *out, size_t taglen, uint8_t *tag)
{
	CHECK(ivlen == 12 && aadlen == 5 && taglen == 16, "TLS 1.3 AEAD parameters: 96-bit nonce, 5-byte AAD, 128-bit tag");
	__CPROVER_assert(inlen <= GMAX, "ghost large enough");
	memcpy(l_nonce, iv, 12); memcpy(l_aad, aad, 5); l_len = inlen; l_sealed = 1;
	for (size_t i = 0; i < inlen; i++) { l_pt[i] = in[i]; l_ct[i] = nondet_u8(); out[i] = l_ct[i]; }
	for (int i = 0; i < 16; i++) { l_tag[i] = nondet_u8(); tag[i] = l_tag[i]; }
	return 1;
}
int sm4_gcm_decrypt(const SM4_KEY *key, const uint8_t *iv, size_t ivlen, const uint8_t *aad, size_t aadlen,
	const uint8_t *in, size_t inlen, const uint8_t *tag, size_t taglen, uint8_t *out)
{
	g_open_calls++; g_open_len = inlen;
	CHECK(ivlen == 12 && aadlen == 5 && taglen == 16, "TLS 1.3 AEAD parameters on open");
	memcpy(o_nonce, iv, 12); memcpy(o_aad, aad, 5); /* observed by the arbitrary-body harness */
	if (g_mode == 2) return -1;
	if (g_mode == 1) {
		for (size_t i = 0; i < inlen; i++) { uint8_t c = in[i]; (void)c; out[i] = g_plain[i]; }
		for (int i = 0; i < 16; i++) { uint8_t c = tag[i]; (void)c; }
		return 1;
	}
	if (!l_sealed || inlen != l_len) return -1;
	int same = 1;
	for (int i = 0; i < 12; i++) if (iv[i] != l_nonce[i]) same = 0;
	for (int i = 0; i < 5; i++) if (aad[i] != l_aad[i]) same = 0;
	for (size_t i = 0; i < inlen; i++) if (in[i] != l_ct[i]) same = 0;
	for (int i = 0; i < 16; i++) if (tag[i] != l_tag[i]) same = 0;
	if (!same) return -1;
	for (size_t i = 0; i < inlen; i++) out[i] = l_pt[i];
	return 1;
}

static BLOCK_CIPHER_KEY key; static uint8_t iv[12], seq[8];
static void setup(void)
{
	key.cipher = &sm4_desc;
	for (int i = 0; i < 12; i++) iv[i] = nondet_u8();
	for (int i = 0; i < 8; i++) seq[i] = nondet_u8();
}

static void roundtrip_case(size_t L, size_t pad)
{
	size_t clen = L + 1 + pad + 16;
	uint8_t *rec = malloc(5 + L), *enc = malloc(5 + clen), *dec = malloc(5 + clen);
	ASSUME(rec && enc && dec);
	uint8_t type = nondet_u8();
	ASSUME(type == 20 || type == 21 || type == 22 || type == 23);
	rec[0] = type; rec[1] = 3; rec[2] = 3; rec[3] = (uint8_t)(L >> 8); rec[4] = (uint8_t)L;
	for (size_t i = 0; i < L; i++) rec[5 + i] = nondet_u8();
	size_t enclen = 0, declen = 0;
	CHECK(tls13_record_encrypt(&key, iv, seq, rec, 5 + L, pad, enc, &enclen) == 1, "protect succeeds");
	CHECK(enclen == 5 + clen, "protected length = header + content + type + padding + tag");
	CHECK(enc[0] == 23 && enc[1] == 3 && enc[2] == 3 && (((size_t)enc[3] << 8) | enc[4]) == clen, "outer header application_data/0x0303/length");
	for (int i = 0; i < 4; i++) CHECK(l_nonce[i] == iv[i], "nonce = iv xor (0^32 || seq)");
	for (int i = 0; i < 8; i++) CHECK(l_nonce[4 + i] == (uint8_t)(iv[4 + i] ^ seq[i]), "nonce = iv xor (0^32 || seq)");
	for (int i = 0; i < 5; i++) CHECK(l_aad[i] == enc[i], "AAD = protected record header");
	CHECK(l_len == L + 1 + pad && l_pt[L] == type, "inner plaintext = content || type || zeros");
	for (size_t i = 0; i < pad; i++) CHECK(l_pt[L + 1 + i] == 0, "zero padding");
	CHECK(tls13_record_decrypt(&key, iv, seq, enc, enclen, dec, &declen) == 1, "unprotect accepts the untouched record");
	CHECK(declen == 5 + L && dec[0] == type, "type and length restored");
	for (size_t i = 0; i < L; i++) CHECK(dec[5 + i] == rec[5 + i], "payload restored");
	/* another sequence number, or an altered length field, must not open */
	uint8_t seq2[8]; int same = 1;
	for (int i = 0; i < 8; i++) { seq2[i] = nondet_u8(); if (seq2[i] != seq[i]) same = 0; }
	ASSUME(!same);
	CHECK(tls13_record_decrypt(&key, iv, seq2, enc, enclen, dec, &declen) != 1, "record presented under another sequence number is rejected");
}
void h13_roundtrip(void)
{
	setup();
	size_t L = nondet_size(), pad = nondet_size();
ASSUME(L >= PMIN);
	ASSUME(L <= PMAX && pad <= 2);
	for (size_t k = PMIN; k <= PMAX; k++) if (L == k) {
		if (pad == 0) roundtrip_case(k, 0); else if (pad == 1) roundtrip_case(k, 1); else roundtrip_case(k, 2);
		break;
	}
	V_REACH();
}

/* arbitrary accepted inner plaintext of length m */
static void open_case(size_t m)
{
	size_t inlen = m + 16;
	uint8_t *in = malloc(inlen), *out = malloc(inlen);
	ASSUME(in && out);
	for (size_t i = 0; i < inlen; i++) in[i] = nondet_u8();
	for (size_t i = 0; i < m; i++) g_plain[i] = nondet_u8();
	g_mode = 1;
	int type = -1; size_t outlen = 0;
	int ret = tls13_gcm_decrypt(&key, iv, seq, in, inlen, &type, out, &outlen);
	CHECK(g_open_calls == 1 && g_open_len == m, "AEAD opened over everything but the 16-byte tag");
	for (int i = 0; i < 4; i++) CHECK(o_nonce[i] == iv[i], "nonce");
	for (int i = 0; i < 8; i++) CHECK(o_nonce[4 + i] == (uint8_t)(iv[4 + i] ^ seq[i]), "nonce = iv xor seq");
	CHECK(o_aad[0] == 23 && o_aad[1] == 3 && o_aad[2] == 3 && o_aad[3] == (uint8_t)(inlen >> 8) && o_aad[4] == (uint8_t)inlen, "AAD carries the received length");
	int allzero = 1; size_t last = 0;
	for (size_t i = 0; i < m; i++) if (g_plain[i]) { allzero = 0; last = i; }
	if (allzero) CHECK(ret != 1, "all-padding inner plaintext is rejected");
	if (ret == 1) {
		V_COVER("accept path 1");
		CHECK(outlen == last && outlen < inlen, "reported length = position of the content type, smaller than the ciphertext");
		CHECK(type == g_plain[last] && (type == 20 || type == 21 || type == 22 || type == 23), "content type = last non-zero byte and is a known record type");
		for (size_t i = 0; i < m; i++) if (i < outlen) CHECK(out[i] == g_plain[i], "payload");
	}
}
void h13_open_arbitrary(void)
{
	setup();
	size_t m = nondet_size();
	ASSUME(m <= PMAX);
	for (size_t k = 0; k <= PMAX; k++) if (m == k) { open_case(k); break; }
	V_REACH();
}
/* too short / rejected by the AEAD */
void h13_open_reject(void)
{
	setup();
	uint8_t in[40], out[40]; int type; size_t outlen;
	size_t inlen = nondet_size(); ASSUME(inlen <= 40);
	v_havoc(in, 40);
	g_mode = 2;
	int ret = tls13_gcm_decrypt(&key, iv, seq, in, inlen, &type, out, &outlen);
	CHECK(ret != 1, "shorter than a tag, or AEAD failure => rejected");
	if (inlen < 16) CHECK(g_open_calls == 0, "not opened when shorter than the tag");
	V_REACH();
}
