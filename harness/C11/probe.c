#include <stdio.h>
#include <string.h>
#include <gmssl/sm4.h>
#include "verif.h"
void h_probe(void)
{
	uint8_t raw[16], iv[16], iv2[16], in[32], ct[32], pt[32];
	for (int i = 0; i < 16; i++) { raw[i] = nondet_u8(); iv[i] = nondet_u8(); }
	for (int i = 0; i < 32; i++) in[i] = nondet_u8();
	memcpy(iv2, iv, 16);
	SM4_KEY ek, dk;
	sm4_set_encrypt_key(&ek, raw); sm4_set_decrypt_key(&dk, raw);
	sm4_cbc_encrypt_blocks(&ek, iv, in, 2, ct);
	sm4_cbc_decrypt_blocks(&dk, iv2, ct, 2, pt);
	for (int i = 0; i < 32; i++) CHECK(pt[i] == in[i], "cbc round trip over UF");
	V_REACH();
}
