/* C11: TLCP/TLS1.2 record protection (tls_cbc_encrypt/decrypt, tls_record_encrypt/decrypt).
 * Real tls.c, sm3_hmac.c, sm4.c block-mode functions (ENABLE_SMALL_FOOTPRINT variants, which call
 * sm4_encrypt) ; SM4 block = ideal permutation (M3), SM3 = stream recorder (M2). */
#include <stdio.h>
#include <string.h>
#include <gmssl/tls.h>
#include <gmssl/sm3.h>
#include <gmssl/sm4.h>
#include "verif.h"

#ifndef PMAX
#define PMAX 20
#endif
#ifndef PMIN
#define PMIN 0
#endif
#ifndef KMIN
#define KMIN (-1)
#define KMAX 255
#endif
#ifndef NMIN
#define NMIN 0
#define NMAX 100
#endif

int g_rand_fail;
int rand_bytes(uint8_t *buf, size_t len)
{
	if (g_rand_fail) return -1;
	for (size_t i = 0; i < len; i++) buf[i] = nondet_u8();
	return 1;
}

/* Ideal MAC at the HMAC interface (call-level probe): the three updates of one MAC computation are logged as
 * (seq bytes, header bytes, data pointer, data length, data snapshot); finish returns a fresh arbitrary tag, equal to
 * an earlier tag iff the logged transcripts are equal (deterministic, collision-free). */
#define SNAP 96
typedef struct { uint8_t seq[8], hdr[5], data[SNAP], tag[32]; const uint8_t *ptr; size_t len; int nupd; int bad; } MACLOG;
static MACLOG g_mac[3]; static int g_nmac;
#define KEYTAG 0x7e
void sm3_hmac_update(SM3_HMAC_CTX *ctx, const uint8_t *data, size_t len)
{
	__CPROVER_assert(g_nmac < 3, "mac log large enough");
	MACLOG *m = &g_mac[g_nmac];
	if (ctx->key[0] != KEYTAG || ctx->key[63] != KEYTAG) m->bad = 1;   /* must be a copy of the keyed context */
	if (m->nupd == 0) { if (len == 8) memcpy(m->seq, data, 8); else m->bad = 1; }
	else if (m->nupd == 1) { if (len == 5) memcpy(m->hdr, data, 5); else m->bad = 1; }
	else if (m->nupd == 2) {
		m->ptr = data; m->len = len;
		if (len > SNAP) m->bad = 1;
		for (size_t i = 0; i < SNAP; i++) if (i < len) m->data[i] = data[i];
	} else m->bad = 1;
	m->nupd++;
}
static int same_transcript(const MACLOG *a, const MACLOG *b)
{
	if (a->len != b->len) return 0;
	for (int i = 0; i < 8; i++) if (a->seq[i] != b->seq[i]) return 0;
	for (int i = 0; i < 5; i++) if (a->hdr[i] != b->hdr[i]) return 0;
	for (size_t i = 0; i < SNAP; i++) if (i < a->len && a->data[i] != b->data[i]) return 0;
	return 1;
}
void sm3_hmac_finish(SM3_HMAC_CTX *ctx, uint8_t mac[32])
{
	MACLOG *m = &g_mac[g_nmac];
	if (m->nupd != 3) m->bad = 1;
	for (int i = 0; i < 32; i++) m->tag[i] = nondet_u8();
	for (int j = 0; j < g_nmac; j++) {
		int same_t = 1; for (int i = 0; i < 32; i++) if (g_mac[j].tag[i] != m->tag[i]) same_t = 0;
		ASSUME(same_t == same_transcript(&g_mac[j], m));
	}
	memcpy(mac, m->tag, 32);
	g_nmac++;
}
static uint8_t seq[8];
static SM3_HMAC_CTX hctx; static SM4_KEY ek, dk;

/* Ideal CBC layer (lazy-sampled): encryption of new blocks yields fresh arbitrary ciphertext and is logged;
 * decryption of exactly the logged ciphertext under the logged IV returns the logged plaintext
 * (honest-record obligations), or a plaintext prepared by the harness (arbitrary-body obligations, where
 * D of an arbitrary ciphertext is an arbitrary string).  The real sm4_cbc_*_blocks are C04's subject. */
#define GMAX 192
static uint8_t g_pt[GMAX], g_ct[GMAX], g_iv0[16]; static size_t g_n; static int g_enc_calls, g_dec_calls, g_dec_matches = 1;
static uint8_t g_plain[GMAX]; static int g_use_plain;
void sm4_cbc_encrypt_blocks(const SM4_KEY *key, uint8_t iv[16], const uint8_t *in, size_t nblocks, uint8_t *out)
{
	CHECK(key == &ek, "encryption uses the write key");
	if (g_enc_calls++ == 0) memcpy(g_iv0, iv, 16);
	else for (int i = 0; i < 16; i++) CHECK(iv[i] == g_ct[g_n - 16 + i], "CBC chaining value carried between calls");
	__CPROVER_assert(g_n + 16 * nblocks <= GMAX, "ghost buffer large enough");
	for (size_t i = 0; i < 16 * nblocks; i++) { g_pt[g_n + i] = in[i]; g_ct[g_n + i] = nondet_u8(); out[i] = g_ct[g_n + i]; }
	g_n += 16 * nblocks;
	memcpy(iv, g_ct + g_n - 16, 16);
}
void sm4_cbc_decrypt_blocks(const SM4_KEY *key, uint8_t iv[16], const uint8_t *in, size_t nblocks, uint8_t *out)
{
	CHECK(key == &dk, "decryption uses the read key");
	g_dec_calls++;
	if (g_use_plain) {
		for (size_t i = 0; i < 16 * nblocks; i++) { uint8_t c = in[i]; (void)c; out[i] = g_plain[i]; }
		return;
	}
	if (16 * nblocks != g_n) g_dec_matches = 0;
	for (int i = 0; i < 16; i++) if (iv[i] != g_iv0[i]) g_dec_matches = 0;
	for (size_t i = 0; i < 16 * nblocks; i++) { if (i < g_n && in[i] != g_ct[i]) g_dec_matches = 0; out[i] = (i < g_n) ? g_pt[i] : nondet_u8(); }
}
static void setup(void)
{
	for (int i = 0; i < 8; i++) seq[i] = nondet_u8();
	memset(&hctx, KEYTAG, sizeof(hctx));      /* "initialised with the MAC key" marker carried by every copy */
}

/* (i) unprotect(protect(record)) = record, for payload length L (concrete on this path) */
static void roundtrip_len(size_t L)
{
	size_t rem = (L + 32) % 16;
	size_t ctlen = 16 + L - rem + 48;
	uint8_t *rec = malloc(5 + L), *enc = malloc(5 + ctlen), *dec = malloc(5 + ctlen);
	ASSUME(rec && enc && dec);
	rec[0] = nondet_u8(); rec[1] = nondet_u8(); rec[2] = nondet_u8();
	rec[3] = (uint8_t)(L >> 8); rec[4] = (uint8_t)L;
	for (size_t i = 0; i < L; i++) rec[5 + i] = nondet_u8();
	size_t enclen = 0, declen = 0;
	CHECK(tls_record_encrypt(&hctx, &ek, seq, rec, 5 + L, enc, &enclen) == 1, "protect succeeds");
	CHECK(enclen == 5 + ctlen, "protected length = 5 + IV + ceil16(payload + MAC + pad)");
	CHECK(enc[0] == rec[0] && enc[1] == rec[1] && enc[2] == rec[2] && (((size_t)enc[3] << 8) | enc[4]) == ctlen, "protected header");
	for (int i = 0; i < 16; i++) CHECK(enc[5 + i] == g_iv0[i], "explicit IV on the wire is the IV used");
	CHECK(tls_record_decrypt(&hctx, &dk, seq, enc, enclen, dec, &declen) == 1, "unprotect accepts the untouched record");
	CHECK(g_dec_calls == 1 && g_dec_matches, "the whole protected body after the IV is decrypted under the wire IV");
	CHECK(declen == 5 + L, "payload length restored");
	for (size_t i = 0; i < 5 + L; i++) CHECK(dec[i] == rec[i], "content type, version, length and payload restored");
#ifdef WRONG_CONTEXT
	/* same record under another sequence number or with an altered authenticated header field */
	uint8_t seq2[8]; for (int i = 0; i < 8; i++) seq2[i] = nondet_u8();
	uint8_t t = nondet_u8(), v1 = nondet_u8(), v2 = nondet_u8();
	int same_seq = 1; for (int i = 0; i < 8; i++) if (seq2[i] != seq[i]) same_seq = 0;
	ASSUME(!same_seq || t != enc[0] || v1 != enc[1] || v2 != enc[2]);
	enc[0] = t; enc[1] = v1; enc[2] = v2;
	CHECK(tls_record_decrypt(&hctx, &dk, seq2, enc, enclen, dec, &declen) != 1, "other sequence number / type / version is rejected");
#endif
}
void h_cbc_roundtrip(void)
{
	setup();
	size_t L = nondet_size();
ASSUME(L >= PMIN);
	ASSUME(L <= PMAX);
	for (size_t k = PMIN; k <= PMAX; k++) if (L == k) { roundtrip_len(k); break; }
	V_REACH();
}

/* (ii) arbitrary protected body: acceptance implies the MAC covers seq || type || version || length || payload,
 * all 32 MAC bytes and all padding bytes were compared, and the reported length fits */
static void check_accept(const uint8_t *hdr, const uint8_t *out, size_t body, size_t outlen, int mac0)
{
	V_COVER("accepted record");
	CHECK(outlen + 32 + 1 <= body, "reported plaintext length fits in the ciphertext");
	size_t pl = out[body - 1];
	CHECK(outlen + 32 + pl + 1 == body, "length = body - MAC - padding");
	for (size_t i = 0; i <= pl; i++) CHECK(out[body - 1 - i] == pl, "every padding byte equals the padding length");
	CHECK(g_nmac == mac0 + 1, "exactly one MAC computed");
	const MACLOG *m = &g_mac[mac0];
	CHECK(!m->bad && m->nupd == 3, "MAC = keyed context copy; update(seq,8); update(header,5); update(payload)");
	for (int i = 0; i < 8; i++) CHECK(m->seq[i] == seq[i], "MAC covers the sequence number");
	CHECK(m->hdr[0] == hdr[0] && m->hdr[1] == hdr[1] && m->hdr[2] == hdr[2], "MAC covers type and version");
	CHECK(m->hdr[3] == (uint8_t)(outlen >> 8) && m->hdr[4] == (uint8_t)outlen, "MAC covers the plaintext length");
	CHECK(m->ptr == out && m->len == outlen, "MAC covers exactly the payload bytes returned");
	for (int i = 0; i < 32; i++) CHECK(out[outlen + i] == m->tag[i], "all 32 MAC bytes compared");
}
/* body = protected length after the IV; K = value of the last decrypted byte (concrete), or -1 for "too large" */
static void sound_case(size_t body, int K)
{
	uint8_t hdr[5]; for (int i = 0; i < 5; i++) hdr[i] = nondet_u8();
	size_t inlen = 16 + body;
	uint8_t *in = malloc(inlen), *out = malloc(inlen);
	ASSUME(in && out);
	for (size_t i = 0; i < inlen; i++) in[i] = nondet_u8();
	for (size_t i = 0; i < body; i++) g_plain[i] = nondet_u8();
	if (K >= 0) g_plain[body - 1] = (uint8_t)K; else ASSUME(g_plain[body - 1] + 33 > body);
	g_use_plain = 1;
	size_t outlen = 0;
	int fin0 = g_nmac;
	int ret = tls_cbc_decrypt(&hctx, &dk, seq, hdr, in, inlen, out, &outlen);
	if (K < 0) CHECK(ret != 1, "padding longer than the record is refused");
	else if (ret == 1) check_accept(hdr, out, body, outlen, fin0);
}
#ifndef BODY
#define BODY 48
#endif
void h_cbc_decrypt_sound(void)
{
	setup();
	int K = nondet_int();
ASSUME(K >= KMIN && K <= KMAX);
	ASSUME(K >= -1 && K + 33 <= BODY);
	for (int k = KMIN; k <= KMAX && k + 33 <= BODY; k++) if (K == k) { sound_case(BODY, k); break; }
	V_REACH();
}
/* malformed lengths are refused without touching memory */
static void badlen(size_t n)
{
	uint8_t hdr[5] = {0}; uint8_t *in = malloc(n ? n : 1), out[4]; size_t outlen = 0;
	ASSUME(in);
	g_use_plain = 1;
	CHECK(tls_cbc_decrypt(&hctx, &dk, seq, hdr, in, n, out, &outlen) != 1, "truncated / unaligned body refused");
}
void h_cbc_decrypt_badlen(void)
{
	setup();
	size_t n = nondet_size();
	ASSUME(n < 64 || n % 16 != 0);
	ASSUME(n <= 100);
ASSUME(n >= NMIN && n <= NMAX);
	for (size_t k = NMIN; k <= NMAX; k++) if (n == k) { badlen(k); break; }
	V_REACH();
}
/* IV generation failure: nothing is produced */
void h_cbc_encrypt_rand_fail(void)
{
	setup();
	g_rand_fail = 1;
	uint8_t rec[5 + 7] = {23, 1, 1, 0, 7}; uint8_t enc[5 + 80]; size_t enclen = 0;
	memset(enc, 0xEE, sizeof(enc));
	CHECK(tls_record_encrypt(&hctx, &ek, seq, rec, sizeof(rec), enc, &enclen) != 1, "entropy failure is reported");
	V_REACH();
}
