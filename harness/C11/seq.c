#include <stdio.h>
#include <gmssl/tls.h>
#include "verif.h"
void h_seq_incr(void)
{
	uint8_t s[8]; uint64_t v = 0;
	for (int i = 0; i < 8; i++) { s[i] = nondet_u8(); v = (v << 8) | s[i]; }
	CHECK(tls_seq_num_incr(s) == 1, "ret");
	uint64_t w = 0; for (int i = 0; i < 8; i++) w = (w << 8) | s[i];
	CHECK(w == v + 1, "sequence number + 1 as a 64-bit big-endian integer (wraps only at 2^64)");
	V_REACH();
}
