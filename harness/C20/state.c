/* C20 (reduction): operations must not keep mutable state outside the objects the caller passes.
 * Run under cbmc --nondet-static: every file-scope / function-local static starts with an arbitrary value, so an
 * operation whose result depends on such state (a cache, a scratch table, a pool) cannot meet its specification. */
#include <stdio.h>
#include <string.h>
#include <unistd.h>
#include <gmssl/rand.h>
#include "verif.h"
static uint8_t e_bytes[16]; static size_t e_len; static int e_calls, e_fail;
int getentropy(void *buf, size_t len)
{
	e_calls++;
	if (e_fail) return -1;
	__CPROVER_assert(len <= 16, "entropy request size");
	for (size_t i = 0; i < len; i++) { e_bytes[i] = nondet_u8(); ((uint8_t *)buf)[i] = e_bytes[i]; }
	e_len = len;
	return 0;
}
void h_rand_bytes_stateless(void)
{
	e_calls = 0; e_fail = nondet_bool(); e_len = 0;
	uint8_t buf[16]; size_t n = nondet_size(); ASSUME(n >= 1 && n <= 16);
	int ret = -9;
	for (size_t k = 1; k <= 16; k++) if (n == k) { ret = rand_bytes(buf, k); break; }
	if (e_fail) CHECK(ret != 1, "entropy failure reported");
	else {
		CHECK(ret == 1 && e_calls == 1 && e_len == n, "each request is served by exactly one call to the OS entropy source for exactly n bytes");
		for (size_t i = 0; i < 16; i++) if (i < n) CHECK(buf[i] == e_bytes[i], "output = the bytes the OS returned for this call (no library-side pool)");
	}
	V_REACH();
}
