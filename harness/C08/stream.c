/* C08 (per endpoint, inductive step) / C19: tls_send, tls_recv, tls_shutdown of src/tls.c on an established connection.
 * The record layer below (tls_record_recv / _decrypt / _encrypt / _send) is an arbitrary-outcome stub that logs what it is given:
 *   recv : from any connection state, the bytes handed to the caller are the next bytes of the current decrypted application record, in order,
 *          min(outlen, remaining) of them; a new record is read only when the previous one is used up; one record per read;
 *   send : one record of type application_data with the connection's protocol carrying the first min(inlen, 2^14) bytes of the caller's data is
 *          protected with this side's write keys and sequence number, the protected record is what goes to the socket, the sequence number advances
 *          exactly once, sentlen = that count; nothing is sent while received data is still buffered.
 * By induction over calls this is "every byte sequence written arrives complete, unmodified and in order for every write / read chunking",
 * given the record protection obligations of C11.  With -DMONITOR the diagnostic monitor (M5) is active: no path dumps data. */
#include <stdio.h>
#include <string.h>
#include <errno.h>
#include <gmssl/tls.h>
#include "verif.h"
#ifdef MONITOR
extern int g_mon_active;
#define MON_ON() (g_mon_active = 1)
#define MON_OFF() (g_mon_active = 0)
#else
#define MON_ON() ((void)0)
#define MON_OFF() ((void)0)
#endif
static TLS_CONNECT conn;
/* ---- record layer stubs ---- */
static int g_recv_calls, g_recv_ret, g_rtype, g_dec_calls, g_dec_ret; static size_t g_plain_len; static uint8_t g_plain[TLS_MAX_PLAINTEXT_SIZE];
static const void *g_dec_hmac, *g_dec_key, *g_dec_seq;
int tls_record_recv(uint8_t *record, size_t *recordlen, tls_socket_t sock)
{
	g_recv_calls++;
	__CPROVER_assert(record == conn.record && sock == conn.sock, "records are read into the connection's record buffer from its socket");
	if (g_recv_ret != 1) return g_recv_ret;
	record[0] = (uint8_t)g_rtype; record[1] = (uint8_t)(conn.protocol >> 8); record[2] = (uint8_t)conn.protocol; record[3] = 0; record[4] = 32; *recordlen = 37;
	return 1;
}
int tls_record_decrypt(const SM3_HMAC_CTX *hmac_ctx, const SM4_KEY *cbc_key, const uint8_t seq_num[8], const uint8_t *in, size_t inlen, uint8_t *out, size_t *outlen)
{
	g_dec_calls++; g_dec_hmac = hmac_ctx; g_dec_key = cbc_key; g_dec_seq = seq_num;
	__CPROVER_assert(in == conn.record && inlen == 37 && out == conn.databuf, "the record just read is decrypted into the data buffer");
	if (g_dec_ret != 1) return -1;
	out[0] = in[0]; out[1] = in[1]; out[2] = in[2]; out[3] = (uint8_t)(g_plain_len >> 8); out[4] = (uint8_t)g_plain_len;
	for (size_t i = 0; i < TLS_MAX_PLAINTEXT_SIZE; i++) if (i < g_plain_len) { g_plain[i] = nondet_u8(); out[5 + i] = g_plain[i]; }
	*outlen = 5 + g_plain_len;
	return 1;
}
static int g_enc_calls, g_enc_ret, g_send_calls, g_send_ret; static const void *g_enc_hmac, *g_enc_key, *g_enc_seq; static uint8_t g_enc_in[TLS_MAX_RECORD_SIZE]; static size_t g_enc_inlen, g_enc_outlen, g_send_len; static const uint8_t *g_send_ptr;
static uint8_t g_seq_at_enc[8];
int tls_record_encrypt(const SM3_HMAC_CTX *hmac_ctx, const SM4_KEY *cbc_key, const uint8_t seq_num[8], const uint8_t *in, size_t inlen, uint8_t *out, size_t *outlen)
{
	g_enc_calls++; g_enc_hmac = hmac_ctx; g_enc_key = cbc_key; g_enc_seq = seq_num; memcpy(g_seq_at_enc, seq_num, 8);
	__CPROVER_assert(inlen <= TLS_MAX_RECORD_SIZE && out == conn.record, "plaintext record fits; protected into the record buffer");
	g_enc_inlen = inlen; for (size_t i = 0; i < TLS_MAX_RECORD_SIZE; i++) if (i < inlen) g_enc_in[i] = in[i];
	if (g_enc_ret != 1) return -1;
	g_enc_outlen = nondet_size(); __CPROVER_assume(g_enc_outlen >= 5 && g_enc_outlen <= TLS_MAX_RECORD_SIZE); *outlen = g_enc_outlen;
	return 1;
}
int tls_record_send(const uint8_t *record, size_t recordlen, tls_socket_t sock)
{ g_send_calls++; g_send_ptr = record; g_send_len = recordlen; __CPROVER_assert(sock == conn.sock, "sent on the connection's socket"); return g_send_ret; }

static void any_conn(void)
{
	conn.protocol = nondet_bool() ? TLS_protocol_tlcp : TLS_protocol_tls12;
	conn.is_client = nondet_bool();
	conn.sock = 3;
	for (int i = 0; i < 8; i++) { conn.client_seq_num[i] = nondet_u8(); conn.server_seq_num[i] = nondet_u8(); }
}
static int verdict(void) { int v = nondet_int(); ASSUME(v == 1 || v == 0 || v == -1 || v == -EAGAIN); return v; }

/* ---- recv: one inductive step from an arbitrary buffered state ---- */
#ifndef OUTMAX
#define OUTMAX 8
#endif
void h_recv_step(void)
{
	any_conn();
	/* representation invariant of the buffered state: data points into the payload of databuf, datalen bytes remain */
	size_t off = nondet_size(), rem = nondet_size(); ASSUME(off <= TLS_MAX_PLAINTEXT_SIZE && rem <= TLS_MAX_PLAINTEXT_SIZE - off);
	for (size_t i = 0; i < TLS_MAX_RECORD_SIZE; i++) conn.databuf[i] = nondet_u8();
	conn.data = conn.databuf + 5 + off; conn.datalen = rem;
	conn.record[0] = TLS_record_application_data;
	g_recv_ret = verdict(); g_dec_ret = nondet_bool() ? 1 : -1; g_rtype = nondet_u8(); g_plain_len = nondet_size(); ASSUME(g_plain_len <= TLS_MAX_PLAINTEXT_SIZE);
	uint8_t out[OUTMAX]; size_t outlen = nondet_size(), got = 0; ASSUME(outlen >= 1 && outlen <= OUTMAX);
	uint8_t cseq[8], sseq[8]; memcpy(cseq, conn.client_seq_num, 8); memcpy(sseq, conn.server_seq_num, 8);
	MON_ON();
	int r = tls_recv(&conn, out, outlen, &got);
	MON_OFF();
	if (rem > 0) {
		/* buffered data first: no socket activity */
		CHECK(r == 1 && g_recv_calls == 0 && g_dec_calls == 0, "buffered data is delivered before anything is read from the socket");
		size_t want = outlen <= rem ? outlen : rem;
		CHECK(got == want, "min(outlen, remaining) bytes delivered");
		for (size_t i = 0; i < OUTMAX; i++) if (i < want) CHECK(out[i] == conn.databuf[5 + off + i], "the next bytes of the record, in order");
		CHECK(conn.data == conn.databuf + 5 + off + want && conn.datalen == rem - want, "position advanced by exactly what was delivered");
		V_COVER("buffered data delivered");
	} else {
		CHECK(g_recv_calls == 1, "exactly one record is read when nothing is buffered");
		if (g_recv_ret != 1) CHECK(r == g_recv_ret && g_dec_calls == 0, "socket outcome (closed / would block / error) is passed on");
		else if (g_dec_ret != 1) CHECK(r == -1, "a record that fails record protection is an error");
		else {
			CHECK(g_dec_calls == 1, "decrypted once");
			if (conn.is_client) CHECK(g_dec_hmac == &conn.server_write_mac_ctx && g_dec_key == &conn.server_write_enc_key && g_dec_seq == conn.server_seq_num, "client reads with the server-write keys and sequence number");
			else CHECK(g_dec_hmac == &conn.client_write_mac_ctx && g_dec_key == &conn.client_write_enc_key && g_dec_seq == conn.client_seq_num, "server reads with the client-write keys and sequence number");
			{	/* the read sequence number advances by exactly one per accepted record (also for an empty one), the write one is untouched */
				uint8_t *rd = conn.is_client ? conn.server_seq_num : conn.client_seq_num, *rd0 = conn.is_client ? sseq : cseq;
				uint8_t *wr = conn.is_client ? conn.client_seq_num : conn.server_seq_num, *wr0 = conn.is_client ? cseq : sseq;
				uint64_t x = 0, y = 0; for (int i = 0; i < 8; i++) { x = (x << 8) | rd[i]; y = (y << 8) | rd0[i]; }
				CHECK(x == y + 1, "read sequence number advanced by exactly one for the accepted record");
				CHECK(memcmp(wr, wr0, 8) == 0, "write sequence number untouched by a read");
			}
			if (g_rtype == TLS_record_application_data) {
				size_t want = outlen <= g_plain_len ? outlen : g_plain_len;
				CHECK(r == 1 && got == want, "application data: min(outlen, record payload) bytes delivered");
				for (size_t i = 0; i < OUTMAX; i++) if (i < want) CHECK(out[i] == g_plain[i], "the first bytes of the new record, in order");
				CHECK(conn.data == conn.databuf + 5 + want && conn.datalen == g_plain_len - want, "the rest stays buffered");
				V_COVER("new record delivered");
			} else CHECK(r != 1, "a record that is not application data is never delivered as data");
		}
	}
	V_REACH();
}
/* ---- send ---- */
#ifndef INMAX
#define INMAX 20
#endif
void h_send(void)
{
	any_conn();
	conn.datalen = nondet_size();
	for (size_t i = 0; i < TLS_MAX_RECORD_SIZE; i++) conn.databuf[i] = nondet_u8();
	conn.data = conn.databuf + 5;
	g_enc_ret = nondet_bool() ? 1 : -1; g_send_ret = nondet_bool() ? 1 : -1;
	static uint8_t in[INMAX]; size_t inlen = nondet_size(), sent = 0; ASSUME(inlen >= 1 && inlen <= INMAX);
	for (size_t i = 0; i < INMAX; i++) in[i] = nondet_u8();
	uint8_t cseq[8], sseq[8]; memcpy(cseq, conn.client_seq_num, 8); memcpy(sseq, conn.server_seq_num, 8);
	size_t pending = conn.datalen;
	MON_ON();
	int r = tls_send(&conn, in, inlen, &sent);
	MON_OFF();
	size_t n = inlen <= TLS_MAX_PLAINTEXT_SIZE ? inlen : TLS_MAX_PLAINTEXT_SIZE;
	if (pending) { CHECK(r != 1 && g_enc_calls == 0 && g_send_calls == 0, "nothing is sent while received data is still buffered (the data buffer is shared)"); }
	else {
		CHECK(g_enc_calls == 1, "one record is protected");
		CHECK(g_enc_inlen == 5 + n && g_enc_in[0] == TLS_record_application_data && g_enc_in[1] == (uint8_t)(conn.protocol >> 8) && g_enc_in[2] == (uint8_t)conn.protocol
			&& g_enc_in[3] == (uint8_t)(n >> 8) && g_enc_in[4] == (uint8_t)n, "application_data record of the connection's protocol carrying min(inlen, max plaintext) bytes");
		for (size_t i = 0; i < INMAX; i++) if (i < n) CHECK(g_enc_in[5 + i] == in[i], "the caller's bytes, in order");
		if (conn.is_client) CHECK(g_enc_hmac == &conn.client_write_mac_ctx && g_enc_key == &conn.client_write_enc_key && g_enc_seq == conn.client_seq_num && memcmp(g_seq_at_enc, cseq, 8) == 0, "client writes with the client-write keys and its current sequence number");
		else CHECK(g_enc_hmac == &conn.server_write_mac_ctx && g_enc_key == &conn.server_write_enc_key && g_enc_seq == conn.server_seq_num && memcmp(g_seq_at_enc, sseq, 8) == 0, "server writes with the server-write keys and its current sequence number");
		if (g_enc_ret != 1) CHECK(r != 1 && g_send_calls == 0, "protection failure: nothing sent");
		else {
			CHECK(g_send_calls == 1 && g_send_ptr == conn.record && g_send_len == g_enc_outlen, "exactly the protected record goes to the socket");
			CHECK((r == 1) == (g_send_ret == 1), "success exactly when the record was sent");
			if (r == 1) { CHECK(sent == n, "sentlen = bytes carried"); V_COVER("record sent"); }
			/* the write sequence number advanced by one, the read one is untouched */
			uint8_t *w = conn.is_client ? conn.client_seq_num : conn.server_seq_num, *w0 = conn.is_client ? cseq : sseq;
			uint8_t *o = conn.is_client ? conn.server_seq_num : conn.client_seq_num, *o0 = conn.is_client ? sseq : cseq;
			uint64_t a = 0, b = 0; for (int i = 0; i < 8; i++) { a = (a << 8) | w[i]; b = (b << 8) | w0[i]; }
			CHECK(a == b + 1, "write sequence number advanced by exactly one");
			CHECK(memcmp(o, o0, 8) == 0, "read sequence number untouched");
		}
	}
	V_REACH();
}
void h_shutdown(void)
{
	any_conn(); conn.datalen = 0; conn.data = conn.databuf + 5;
	g_enc_ret = nondet_bool() ? 1 : -1; g_send_ret = nondet_bool() ? 1 : -1; g_recv_ret = verdict(); g_dec_ret = nondet_bool() ? 1 : -1; g_rtype = nondet_u8(); g_plain_len = 2;
	MON_ON();
	int r = tls_shutdown(&conn);
	MON_OFF();
	CHECK(g_enc_calls >= 1 && g_enc_in[0] == TLS_record_alert && g_enc_inlen == 7 && g_enc_in[6] == TLS_alert_close_notify, "close_notify alert is the first thing protected");
	if (r == 1) V_COVER("orderly close");
	V_REACH();
}
