/* C08: every protected length that tls_cbc_encrypt can produce (payload 0..16384) passes the length gate of tls_cbc_decrypt */
#include <stdio.h>
#include <string.h>
#include <gmssl/tls.h>
#include <gmssl/sm3.h>
#include <gmssl/sm4.h>
#include "verif.h"
static int g_dec_calls; static size_t g_dec_blocks;
void sm4_cbc_decrypt_blocks(const SM4_KEY *key, uint8_t iv[16], const uint8_t *in, size_t nblocks, uint8_t *out) { g_dec_calls++; g_dec_blocks = nblocks; }
void sm3_hmac_update(SM3_HMAC_CTX *c, const uint8_t *d, size_t n) { }
void sm3_hmac_finish(SM3_HMAC_CTX *c, uint8_t mac[32]) { }
void h_len_gate(void)
{
	static uint8_t in[16 + 16384 + 48 + 16], out[16 + 16384 + 48 + 16];
	size_t L = nondet_size(); ASSUME(L <= 16384);
	size_t rem = (L + 32) % 16;
	size_t inlen = 16 + L - rem + 48;           /* = length produced by tls_cbc_encrypt for an L-byte payload (C11.cbc_roundtrip) */
	SM3_HMAC_CTX h; SM4_KEY k; uint8_t seq[8] = {0}, hdr[5] = {0}; size_t outlen = 0;
	(void)tls_cbc_decrypt(&h, &k, seq, hdr, in, inlen, out, &outlen);
	CHECK(g_dec_calls == 1 && g_dec_blocks == (inlen - 16) / 16, "length accepted: the body is decrypted (no valid record length is refused up front)");
	V_REACH();
}
