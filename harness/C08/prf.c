/* C08/C10: tls_prf = P_hash of RFC 5246 5 / GB/T 38636 with HMAC-SM3 as an ideal PRF:
 * A(1) = HMAC(secret, label||seed||more), A(i+1) = HMAC(secret, A(i)), out = HMAC(secret, A(1)||S) || HMAC(secret, A(2)||S) ... truncated,
 * S = label || seed || more.  Every HMAC input is logged (call-level), outputs are fresh arbitrary values. */
#include <stdio.h>
#include <string.h>
#include <gmssl/tls.h>
#include <gmssl/sm3.h>
#include "verif.h"
#define NQ 8
#define QL 80
static uint8_t q_in[NQ][QL]; static size_t q_len[NQ]; static uint8_t q_out[NQ][32]; static int q_n; static int q_bad;
#define KEYTAG 0x4d
static const uint8_t *g_secret; static size_t g_secretlen;
void sm3_hmac_init(SM3_HMAC_CTX *c, const uint8_t *key, size_t keylen) { memset(c, KEYTAG, sizeof(*c)); if (key != g_secret || keylen != g_secretlen) q_bad = 1; c->sm3_ctx.nblocks = 0; }
void sm3_hmac_update(SM3_HMAC_CTX *c, const uint8_t *d, size_t n)
{ if (c->key[0] != KEYTAG) q_bad = 1; size_t cur = (size_t)c->sm3_ctx.nblocks; __CPROVER_assert(q_n < NQ && cur + n <= QL, "log"); for (size_t i = 0; i < n; i++) q_in[q_n][cur + i] = d[i]; c->sm3_ctx.nblocks = cur + n; }
void sm3_hmac_finish(SM3_HMAC_CTX *c, uint8_t mac[32]) { q_len[q_n] = (size_t)c->sm3_ctx.nblocks; for (int i = 0; i < 32; i++) { q_out[q_n][i] = nondet_u8(); mac[i] = q_out[q_n][i]; } q_n++; }
size_t strlen(const char *s) { size_t n = 0; while (s[n]) n++; return n; }
#ifndef OUTLEN
#define OUTLEN 48
#endif
#ifndef SEEDLEN
#define SEEDLEN 6
#endif
#ifndef MORELEN
#define MORELEN 4
#endif
void h_prf(void)
{
	uint8_t secret[5], seed[SEEDLEN], more[MORELEN ? MORELEN : 1], out[OUTLEN];
	for (int i = 0; i < SEEDLEN; i++) seed[i] = nondet_u8();
	for (int i = 0; i < MORELEN; i++) more[i] = nondet_u8();
	const char *label = "abc";
	g_secret = secret; g_secretlen = 5;
	CHECK(tls_prf(secret, 5, label, seed, SEEDLEN, MORELEN ? more : NULL, MORELEN, OUTLEN, out) == 1, "prf");
	int nblk = (OUTLEN + 31) / 32;
	CHECK(!q_bad && q_n == 2 * nblk, "2 HMAC computations per output block, all keyed with the secret");
	uint8_t S[3 + SEEDLEN + MORELEN]; memcpy(S, label, 3); memcpy(S + 3, seed, SEEDLEN); for (int i = 0; i < MORELEN; i++) S[3 + SEEDLEN + i] = more[i];
	size_t sl = 3 + SEEDLEN + MORELEN;
	/* computation order in the code: A(1), P(1), then for each further block A(i), P(i) */
	for (int b = 0; b < nblk; b++) {
		int qa = 2 * b, qp = 2 * b + 1;
		if (b == 0) { CHECK(q_len[qa] == sl, "A(1) input = label || seed || more"); for (size_t i = 0; i < sl; i++) CHECK(q_in[qa][i] == S[i], "A(1) = HMAC(secret, S): every seed byte (handshake hash / randoms) enters the PRF"); }
		else { CHECK(q_len[qa] == 32, "A(i+1) input = A(i)"); for (int i = 0; i < 32; i++) CHECK(q_in[qa][i] == q_out[2 * (b - 1)][i], "A(i+1) = HMAC(secret, A(i))"); }
		CHECK(q_len[qp] == 32 + sl, "P(i) input = A(i) || S");
		for (int i = 0; i < 32; i++) CHECK(q_in[qp][i] == q_out[qa][i], "A(i)");
		for (size_t i = 0; i < sl; i++) CHECK(q_in[qp][32 + i] == S[i], "S = label || seed || more");
		for (int i = 0; i < 32; i++) if (32 * b + i < OUTLEN) CHECK(out[32 * b + i] == q_out[qp][i], "output = P(1) || P(2) ... truncated");
	}
	V_REACH();
}
