/* C08: TLS 1.3 key-schedule labelling (RFC 8446 7.1): HKDF-Expand-Label(secret, label, context, L) =
 * HKDF-Expand(secret, be16(L) || u8(|"tls13 " + label|) || "tls13 " || label || u8(|context|) || context, L);
 * Derive-Secret(secret, label, transcript) uses context = Hash(transcript), L = Hash.length. */
#include <stdio.h>
#include <string.h>
#include <gmssl/tls.h>
#include <gmssl/hkdf.h>
#include <gmssl/digest.h>
#include "verif.h"
static uint8_t e_info[80]; static size_t e_infolen, e_L; static const uint8_t *e_prk; static size_t e_prklen; static int e_calls; static uint8_t e_out[32];
int hkdf_expand(const DIGEST *digest, const uint8_t *prk, size_t prklen, const uint8_t *info, size_t infolen, size_t L, uint8_t *okm)
{ e_calls++; e_prk = prk; e_prklen = prklen; __CPROVER_assert(infolen <= 80 && L <= 32, "log"); memcpy(e_info, info, infolen); e_infolen = infolen; e_L = L; for (size_t i = 0; i < L; i++) { e_out[i] = nondet_u8(); okm[i] = e_out[i]; } return 1; }
static uint8_t g_hash[32];
int digest_finish(DIGEST_CTX *ctx, uint8_t *dgst, size_t *dgstlen) { memcpy(dgst, g_hash, 32); *dgstlen = 32; return 1; }
size_t strlen(const char *s) { size_t n = 0; while (s[n]) n++; return n; }
int tls13_hkdf_expand_label(const DIGEST *digest, const uint8_t secret[32], const char *label, const uint8_t *context, size_t context_len, size_t outlen, uint8_t *out);
int tls13_derive_secret(const uint8_t secret[32], const char *label, const DIGEST_CTX *dgst_ctx, uint8_t out[32]);
static void check_label(const char *label, size_t ll, const uint8_t *ctx, size_t cl, size_t L)
{
	CHECK(e_infolen == 2 + 1 + 6 + ll + 1 + cl, "HkdfLabel length");
	CHECK(e_info[0] == (uint8_t)(L >> 8) && e_info[1] == (uint8_t)L, "uint16 length");
	CHECK(e_info[2] == 6 + ll, "label length octet");
	CHECK(e_info[3] == 't' && e_info[4] == 'l' && e_info[5] == 's' && e_info[6] == '1' && e_info[7] == '3' && e_info[8] == ' ', "tls13-space prefix");
	for (size_t i = 0; i < ll; i++) CHECK(e_info[9 + i] == (uint8_t)label[i], "label");
	CHECK(e_info[9 + ll] == cl, "context length octet");
	for (size_t i = 0; i < cl; i++) CHECK(e_info[10 + ll + i] == ctx[i], "context");
}
void h_expand_label(void)
{
	uint8_t secret[32], ctx[5], out[32]; for (int i = 0; i < 5; i++) ctx[i] = nondet_u8();
	const char *label = "c hs traffic";
	size_t L = nondet_size(); ASSUME(L == 12 || L == 16 || L == 32);
	DIGEST d;
	CHECK(tls13_hkdf_expand_label(&d, secret, label, ctx, 5, L, out) == 1, "expand_label");
	CHECK(e_calls == 1 && e_prk == secret && e_prklen == 32 && e_L == L, "HKDF-Expand keyed with the secret, requested length L");
	check_label(label, 12, ctx, 5, L);
	for (size_t i = 0; i < 32; i++) if (i < L) CHECK(out[i] == e_out[i], "output = HKDF-Expand output");
	V_REACH();
}
void h_derive_secret(void)
{
	uint8_t secret[32], out[32]; for (int i = 0; i < 32; i++) g_hash[i] = nondet_u8();
	DIGEST_CTX dctx; memset(&dctx, 0, sizeof(dctx));
	CHECK(tls13_derive_secret(secret, "derived", &dctx, out) == 1, "derive_secret");
	CHECK(e_calls == 1 && e_prk == secret && e_L == 32, "Derive-Secret expands to Hash.length bytes under the secret");
	check_label("derived", 7, g_hash, 32, 32);
	V_REACH();
}
