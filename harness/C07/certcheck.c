/* C07-c: the per-certificate functions that the chain obligations (C07-a) treat as abstract facts.
 *   x509_cert_check            accepts => v3, non-empty serial, now inside [notBefore, notAfter] (real x509_validity_check), non-empty well-formed issuer and
 *                              subject, extension profile accepted for the requested role, inner = outer signature algorithm
 *   x509_cert_verify_by_ca_cert accepts <=> issuer(cert) = subject(CA) byte for byte and the signature verifies under the CA's public key with the caller's ID */
#include <stdio.h>
#include <string.h>
#include <time.h>
#include <gmssl/x509.h>
#include <gmssl/sm2.h>
#include "verif.h"
static int d_ret, d_version, d_tbs_alg, d_sig_alg; static uint8_t d_serial[4], d_issuer[4], d_subject[4], d_exts[4]; static size_t d_serial_len, d_issuer_len, d_subject_len, d_exts_len; static int d_serial_null;
static time_t d_nb, d_na, d_now;
int x509_cert_get_details(const uint8_t *a, size_t alen, int *version, const uint8_t **serial_number, size_t *serial_number_len, int *inner_signature_algor,
	const uint8_t **issuer, size_t *issuer_len, time_t *not_before, time_t *not_after, const uint8_t **subject, size_t *subject_len, SM2_KEY *subject_public_key,
	const uint8_t **issuer_unique_id, size_t *issuer_unique_id_len, const uint8_t **subject_unique_id, size_t *subject_unique_id_len,
	const uint8_t **extensions, size_t *extensions_len, int *signature_algor, const uint8_t **signature, size_t *signature_len)
{
	if (d_ret != 1) return -1;
	*version = d_version; *serial_number = d_serial_null ? NULL : d_serial; *serial_number_len = d_serial_len; *inner_signature_algor = d_tbs_alg;
	*issuer = d_issuer; *issuer_len = d_issuer_len; *not_before = d_nb; *not_after = d_na; *subject = d_subject; *subject_len = d_subject_len;
	*extensions = d_exts; *extensions_len = d_exts_len; *signature_algor = d_sig_alg;
	return 1;
}
time_t time(time_t *t) { if (t) *t = d_now; return d_now; }
static int n_iss_ret, n_sub_ret, e_ret, e_type, e_calls; static const uint8_t *e_ptr; static size_t e_len;
int x509_name_check(const uint8_t *d, size_t dlen) { return d == d_issuer ? n_iss_ret : n_sub_ret; }
int x509_exts_check(const uint8_t *exts, size_t extslen, int cert_type, int *path_len_constraint) { e_calls++; e_ptr = exts; e_len = extslen; e_type = cert_type; *path_len_constraint = 3; return e_ret; }
static int tri(void) { int v = nondet_int(); ASSUME(v == 1 || v == 0 || v == -1); return v; }
void h_cert_check(void)
{
	d_ret = nondet_bool() ? 1 : -1; d_version = nondet_int(); d_tbs_alg = nondet_int(); d_sig_alg = nondet_int();
	d_serial_len = nondet_size(); ASSUME(d_serial_len <= 4); d_serial_null = nondet_bool();
	d_issuer_len = nondet_size(); d_subject_len = nondet_size(); d_exts_len = nondet_size(); ASSUME(d_issuer_len <= 4 && d_subject_len <= 4 && d_exts_len <= 4);
	d_nb = (time_t)nondet_u64(); d_na = (time_t)nondet_u64(); d_now = (time_t)nondet_u64(); ASSUME(d_nb >= 0 && d_na >= 0 && d_now >= 0 && d_nb < (1LL << 40) && d_na < (1LL << 40) && d_now < (1LL << 40));
	n_iss_ret = tri(); n_sub_ret = tri(); e_ret = tri();
	int type = nondet_int(), plc = -7; uint8_t cert[1] = {0};
	int r = x509_cert_check(cert, 1, type, &plc);
	if (r == 1) {
		V_COVER("certificate accepted");
		CHECK(d_ret == 1, "the certificate parsed");
		CHECK(d_version == X509_version_v3, "version 3");
		CHECK(!d_serial_null && d_serial_len >= 1, "non-empty serial number");
		CHECK(d_nb <= d_now && d_now <= d_na, "now is inside the validity period");
		CHECK(n_iss_ret == 1 && n_sub_ret == 1, "issuer and subject are non-empty well-formed names");
		CHECK(e_calls == 1 && e_ret == 1 && e_ptr == d_exts && e_len == d_exts_len && e_type == type, "the extension profile of the requested role accepted this certificate's extensions");
		CHECK(d_tbs_alg == d_sig_alg, "inner and outer signature algorithm agree");
		CHECK(plc == 3, "path length constraint handed on");
	} else CHECK(r == -1 || r == 0, "refusal");
	V_REACH();
}
/* ---- link verification ---- */
static uint8_t l_issuer[3], l_subject[3]; static size_t l_il, l_sl; static int l_iss_ret, l_sub_ret, l_pk_ret, l_sv_ret, l_sv_calls; static SM2_KEY l_key; static const SM2_KEY *l_sv_key; static const char *l_sv_id; static size_t l_sv_idlen; static const uint8_t *l_sv_a;
static uint8_t certA[1], certCA[1];
int x509_cert_get_issuer(const uint8_t *a, size_t alen, const uint8_t **d, size_t *dlen) { __CPROVER_assert(a == certA, "issuer taken from the certificate under test"); *d = l_issuer; *dlen = l_il; return l_iss_ret; }
int x509_cert_get_subject(const uint8_t *a, size_t alen, const uint8_t **d, size_t *dlen) { __CPROVER_assert(a == certCA, "subject taken from the CA certificate"); *d = l_subject; *dlen = l_sl; return l_sub_ret; }
int x509_cert_get_subject_public_key(const uint8_t *a, size_t alen, SM2_KEY *public_key) { __CPROVER_assert(a == certCA, "public key taken from the CA certificate"); if (l_pk_ret != 1) return -1; memset(public_key, 0x5a, sizeof(*public_key)); return 1; }
int x509_signed_verify(const uint8_t *a, size_t alen, const SM2_KEY *pub_key, const char *signer_id, size_t signer_id_len)
{ l_sv_calls++; l_sv_a = a; l_sv_id = signer_id; l_sv_idlen = signer_id_len; l_key = *pub_key; return l_sv_ret; }
void h_link(void)
{
	l_il = nondet_size(); l_sl = nondet_size(); ASSUME(l_il >= 1 && l_il <= 3 && l_sl >= 1 && l_sl <= 3);
	for (int i = 0; i < 3; i++) { l_issuer[i] = nondet_u8(); l_subject[i] = nondet_u8(); }
	l_iss_ret = nondet_bool() ? 1 : -1; l_sub_ret = nondet_bool() ? 1 : -1; l_pk_ret = nondet_bool() ? 1 : -1; l_sv_ret = tri();
	static const char id[] = "ID";
	int r = x509_cert_verify_by_ca_cert(certA, 1, certCA, 1, id, 2);
	int same = l_il == l_sl; for (int i = 0; i < 3; i++) if ((size_t)i < l_il && l_issuer[i] != l_subject[i]) same = 0;
	int want = l_iss_ret == 1 && l_sub_ret == 1 && same && l_pk_ret == 1 && l_sv_ret == 1;
	CHECK((r == 1) == want, "accepted exactly when issuer(cert) = subject(CA) byte for byte and the signature verifies under the CA's public key");
	if (r == 1) {
		V_COVER("link accepted");
		CHECK(l_sv_calls == 1 && l_sv_a == certA && l_sv_id == id && l_sv_idlen == 2, "the signature of the certificate under test was verified with the caller's signer ID");
		uint8_t *k = (uint8_t *)&l_key; CHECK(k[0] == 0x5a && k[sizeof(SM2_KEY) - 1] == 0x5a, "under the public key extracted from the CA certificate");
	}
	V_REACH();
}
