/* C07-a: chain-walk logic of x509_certs_verify / x509_certs_verify_tlcp (real src/x509_cer.c).
 * Certificates are abstract: a chain is a byte array of certificate ids; per-certificate facts (profile check
 * verdict per role, pathLenConstraint, which issuer verifies which subject, trust-store lookup) are arbitrary tables. */
#include <stdio.h>
#include <string.h>
#include <gmssl/x509.h>
#include "verif.h"

#define NC 8            /* certificate ids 0..7; ids 6,7 are reserved for trust-store entries */
#define NROLE 8
static _Bool chk[NC][NROLE];        /* x509_cert_check(cert, role) == 1 */
static int  plc[NC];                /* pathLenConstraint reported (-1 = absent) */
static _Bool link_ok[NC][NC];       /* x509_cert_verify_by_ca_cert(child, parent) == 1 (issuer name + signature) */
static int  trust_of[NC];           /* trust-store lookup by issuer name of cert: id of the anchor, or -1 */
static uint8_t issuer_name[NC];     /* dummy one-byte names */

static int cid(const uint8_t *cert) { __CPROVER_assert(cert[0] < NC, "cert id"); return cert[0]; }

int x509_cert_from_der(const uint8_t **a, size_t *alen, const uint8_t **in, size_t *inlen)
{
	if (*inlen == 0) return 0;
	*a = *in; *alen = 1; (*in)++; (*inlen)--;
	return 1;
}
int x509_cert_check(const uint8_t *cert, size_t certlen, int cert_type, int *path_len_constraint)
{
	__CPROVER_assert(cert_type >= 0 && cert_type < NROLE, "role");
	*path_len_constraint = plc[cid(cert)];
	return chk[cid(cert)][cert_type] ? 1 : -1;
}
int x509_cert_verify_by_ca_cert(const uint8_t *a, size_t alen, const uint8_t *cacert, size_t cacertlen, const char *id, size_t idlen)
{ return link_ok[cid(a)][cid(cacert)] ? 1 : -1; }
int x509_cert_get_issuer(const uint8_t *a, size_t alen, const uint8_t **name, size_t *namelen)
{ issuer_name[cid(a)] = (uint8_t)cid(a); *name = &issuer_name[cid(a)]; *namelen = 1; return 1; }
static uint8_t anchors[NC];
int x509_certs_get_cert_by_subject(const uint8_t *d, size_t dlen, const uint8_t *subject, size_t subject_len, const uint8_t **cert, size_t *certlen)
{
	int t = trust_of[subject[0]];
	if (t < 0) return -1;
	anchors[t] = (uint8_t)t; *cert = &anchors[t]; *certlen = 1;
	return 1;
}
int x509_cert_print(FILE *fp, int fmt, int ind, const char *label, const uint8_t *a, size_t alen) { return 1; }

static void facts(void)
{
	for (int i = 0; i < NC; i++) {
		for (int r = 0; r < NROLE; r++) chk[i][r] = nondet_bool();
		int p = nondet_int(); ASSUME(p >= -1 && p <= 6); plc[i] = p;
		for (int j = 0; j < NC; j++) link_ok[i][j] = nondet_bool();
		int t = nondet_int(); ASSUME(t == -1 || t == 6 || t == 7); trust_of[i] = t;
	}
}
#ifndef NCERTS
#define NCERTS 4
#endif
/* reference predicate, RFC 5280 6.1 restricted to the attributes the property names */
void h_chain(void)
{
	facts();
	uint8_t chain[NCERTS];
	for (int i = 0; i < NCERTS; i++) { chain[i] = nondet_u8(); ASSUME(chain[i] < 6); }
	int depth = nondet_int(); ASSUME(depth >= 0 && depth <= 6);
	int type = nondet_bool() ? X509_cert_chain_server : X509_cert_chain_client;
	int leaf_role = type == X509_cert_chain_server ? X509_cert_server_auth : X509_cert_client_auth;
	int res = 0;
	int ret = x509_certs_verify(chain, NCERTS, type, anchors, 0, depth, &res);
	int k = NCERTS - 1;                       /* number of CA certificates in the chain */
	int ok = chk[chain[0]][leaf_role];
	for (int i = 1; i <= k; i++) {
		int c = chain[i];
		ok = ok && chk[c][X509_cert_ca] && link_ok[chain[i - 1]][c];
		ok = ok && (plc[c] < 0 || i - 1 <= plc[c]) && (i - 1 <= depth);   /* i-1 CAs below it */
	}
	int r = trust_of[chain[k]];
	ok = ok && r >= 0;
	if (r >= 0) ok = ok && chk[r][X509_cert_ca] && link_ok[chain[k]][r] && (plc[r] < 0 || k <= plc[r]) && k <= depth;
	if (ret == 1) V_COVER("chain accepted");
	if (ret == 1) CHECK(ok, "accepted chain: every check passed, every link verified, anchor trusted and a CA, pathLen and depth respected");
	/* completeness for the toolkit's own chain shape: first issuer has pathLen 0, the others enough room */
	int shape = (k == 0) || (plc[chain[1]] == 0);
	if (ok && shape) CHECK(ret == 1, "every valid chain of the toolkit's shape is accepted");
	V_REACH();
}
void h_chain_tlcp(void)
{
	facts();
	uint8_t chain[NCERTS + 1];
	for (int i = 0; i < NCERTS + 1; i++) { chain[i] = nondet_u8(); ASSUME(chain[i] < 6); }
	int depth = nondet_int(); ASSUME(depth >= 0 && depth <= 6);
	int type = nondet_bool() ? X509_cert_chain_server : X509_cert_chain_client;
	int sign_role = type == X509_cert_chain_server ? X509_cert_server_auth : X509_cert_client_auth;
	int kenc_role = type == X509_cert_chain_server ? X509_cert_server_key_encipher : X509_cert_client_key_encipher;
	int res = 0;
	int ret = x509_certs_verify_tlcp(chain, NCERTS + 1, type, anchors, 0, depth, &res);
	/* chain = sign leaf, encryption leaf, CA_1 .. CA_k */
	int k = NCERTS - 1;
	int ok = chk[chain[0]][sign_role] && chk[chain[1]][kenc_role];
	int first_issuer = (k >= 1) ? chain[2] : -2;
	for (int i = 1; i <= k; i++) {
		int c = chain[i + 1], below = (i == 1) ? chain[0] : chain[i];
		ok = ok && chk[c][X509_cert_ca] && link_ok[below][c];
		ok = ok && (plc[c] < 0 || i - 1 <= plc[c]) && (i - 1 <= depth);
	}
	int top = (k >= 1) ? chain[k + 1] : chain[0];
	int r = trust_of[top];
	ok = ok && r >= 0;
	if (r >= 0) ok = ok && chk[r][X509_cert_ca] && link_ok[top][r] && (plc[r] < 0 || k <= plc[r]) && k <= depth;
	/* the encryption certificate is issued by the same first issuer */
	if (k >= 1) ok = ok && link_ok[chain[1]][first_issuer]; else if (r >= 0) ok = ok && link_ok[chain[1]][r];
	if (ret == 1) V_COVER("tlcp chain accepted");
	if (ret == 1) CHECK(ok, "accepted TLCP chain: both leaves checked under their own role, both verified by the first issuer, rest as TLS");
	int shape = (k == 0) || (plc[chain[2]] == 0);
	if (ok && shape) CHECK(ret == 1, "every valid TLCP chain of the toolkit's shape is accepted");
	V_REACH();
}
