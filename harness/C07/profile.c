/* C07-b: per-certificate profile (real x509_exts_check, x509_basic_constraints_check, x509_key_usage_check,
 * x509_ext_key_usage_check, x509_validity_check).  Extension lists are abstract: the DER decoders return
 * arbitrary field values. */
#include <stdio.h>
#include <string.h>
#include <time.h>
#include <gmssl/x509.h>
#include <gmssl/x509_ext.h>
#include <gmssl/oid.h>
#include "verif.h"

#ifndef NEXT
#define NEXT 4
#endif
static int e_oid[NEXT], e_crit[NEXT];
static int g_ku, g_ca, g_pl, g_eku[2], g_eku_cnt, g_ski_ok;
static int seen_bc, seen_ku, seen_eku;

int x509_ext_from_der(int *oid, uint32_t *nodes, size_t *nodes_cnt, int *critical, const uint8_t **val, size_t *vlen, const uint8_t **in, size_t *inlen)
{
	if (*inlen == 0) return 0;
	int i = (*in)[0]; __CPROVER_assert(i < NEXT, "ext idx");
	*oid = e_oid[i]; *critical = e_crit[i]; *val = *in; *vlen = 1; *nodes_cnt = 0;
	(*in)++; (*inlen)--;
	return 1;
}
int asn1_bits_from_der_ex(int tag, int *bits, const uint8_t **in, size_t *inlen) { seen_ku++; *bits = g_ku; *inlen = 0; return 1; }
int x509_basic_constraints_from_der(int *ca, int *pl, const uint8_t **in, size_t *inlen) { seen_bc++; *ca = g_ca; *pl = g_pl; *inlen = 0; return 1; }
int x509_ext_key_usage_from_der(int *oids, size_t *cnt, size_t max, const uint8_t **in, size_t *inlen)
{ seen_eku++; oids[0] = g_eku[0]; oids[1] = g_eku[1]; *cnt = (size_t)g_eku_cnt; *inlen = 0; return 1; }
static uint8_t dummy[1];
int asn1_type_from_der(int tag, const uint8_t **d, size_t *dlen, const uint8_t **in, size_t *inlen)
{ if (!g_ski_ok) return -1; *d = dummy; *dlen = 1; *inlen = 0; return 1; }
int asn1_length_is_zero(size_t len) { return len ? -1 : 1; }

void h_exts_check(void)
{
	uint8_t exts[NEXT]; size_t n = nondet_size(); ASSUME(n <= NEXT);
	for (int i = 0; i < NEXT; i++) {
		exts[i] = (uint8_t)i;
		e_oid[i] = nondet_int(); e_crit[i] = nondet_int();
		ASSUME(e_crit[i] == X509_critical || e_crit[i] == X509_non_critical || e_crit[i] == -1);
		/* known extension OIDs are a contiguous block of the enum; 0 = unrecognised */
		ASSUME(e_oid[i] == OID_undef || (e_oid[i] >= OID_ce_authority_key_identifier && e_oid[i] <= OID_ce_inhibit_any_policy));
		/* each extension occurs at most once (RFC 5280 4.2; enforced by the DER layer's caller contract) */
		for (int j = 0; j < i; j++) ASSUME(e_oid[i] == OID_undef || e_oid[i] != e_oid[j]);
	}
	g_ku = nondet_int(); ASSUME(g_ku >= 0 && g_ku < 512);
	g_ca = nondet_int(); ASSUME(g_ca >= -1 && g_ca <= 1);
	g_pl = nondet_int(); ASSUME(g_pl >= -1 && g_pl <= 6);
	g_eku[0] = nondet_int(); g_eku[1] = nondet_int(); g_eku_cnt = nondet_int(); ASSUME(g_eku_cnt >= 1 && g_eku_cnt <= 2);
	g_ski_ok = nondet_bool();
	int role = nondet_int();
	ASSUME(role == X509_cert_server_auth || role == X509_cert_client_auth || role == X509_cert_server_key_encipher
		|| role == X509_cert_client_key_encipher || role == X509_cert_ca);
	int plc = -7;
	int ret = x509_exts_check(exts, n, role, &plc);
	if (ret == 1) {
		int has_unknown_critical = 0;
		for (size_t i = 0; i < NEXT; i++) if (i < n && e_oid[i] == OID_undef && e_crit[i] == X509_critical) has_unknown_critical = 1;
		CHECK(!has_unknown_critical, "no unrecognised critical extension in an accepted certificate");
		if (role == X509_cert_ca) {
			CHECK(seen_bc == 1 && g_ca == 1, "issuer certificates carry BasicConstraints with cA = TRUE");
			CHECK(plc == g_pl, "pathLenConstraint reported to the chain walker");
			if (seen_ku) CHECK(g_ku & X509_KU_KEY_CERT_SIGN, "keyUsage present => keyCertSign");
		} else {
			if (seen_bc) CHECK(g_ca <= 0 && g_pl == -1, "end-entity certificate is not a CA");
			if (seen_ku) {
				CHECK(!(g_ku & (X509_KU_KEY_CERT_SIGN | X509_KU_CRL_SIGN)), "end-entity keyUsage has no certificate/CRL signing bits");
				if (role == X509_cert_server_auth || role == X509_cert_client_auth) CHECK(g_ku & X509_KU_DIGITAL_SIGNATURE, "authentication role needs digitalSignature");
				else CHECK(g_ku & X509_KU_KEY_ENCIPHERMENT, "key-encipherment role needs keyEncipherment");
			}
			if (seen_eku) {
				int want = (role == X509_cert_server_auth || role == X509_cert_server_key_encipher) ? OID_kp_server_auth : OID_kp_client_auth;
				CHECK(g_eku[0] == want || (g_eku_cnt == 2 && g_eku[1] == want), "extKeyUsage present => contains the purpose of the role");
			}
		}
	}
	V_REACH();
}
void h_validity(void)
{
	time_t nb = (time_t)nondet_u64(), na = (time_t)nondet_u64(), now = (time_t)nondet_u64();
	ASSUME(nb >= 0 && na >= 0 && now >= 0 && nb < ((time_t)1 << 40) && na < ((time_t)1 << 40) && now < ((time_t)1 << 40));
	int ret = x509_validity_check(nb, na, now, X509_VALIDITY_MAX_SECONDS);
	if (ret == 1) CHECK(nb <= now && now <= na, "accepted => notBefore <= now <= notAfter");
	if (nb <= now && now <= na && na - nb <= X509_VALIDITY_MAX_SECONDS) CHECK(ret == 1, "inside the window and within the maximum lifetime => accepted");
	V_REACH();
}
