/* C12: the server side of the TLS 1.3 key_share extension (src/tls_ext.c tls13_process_client_key_share): the client's share is used only if its 65 octets
 * passed the validating point decoder sm2_z256_point_from_octets (no other decoder), and the point handed back is the one that decoder produced. */
#include <stdio.h>
#include <string.h>
#include <gmssl/tls.h>
#include <gmssl/sm2.h>
#include "verif.h"
static int g_calls, g_verdict, g_other; static const uint8_t *g_ptr; static size_t g_len;
int sm2_z256_point_from_octets(SM2_Z256_POINT *P, const uint8_t *in, size_t inlen) { g_calls++; g_ptr = in; g_len = inlen; if (g_verdict == 1) memset(P, 0x21, sizeof(*P)); return g_verdict; }
int sm2_z256_point_from_bytes(SM2_Z256_POINT *P, const uint8_t in[64]) { g_other++; memset(P, 0x33, sizeof(*P)); return nondet_int(); }   /* non-validating for infinity: returns 0 for (0,0) */
int sm2_z256_point_from_x_bytes(SM2_Z256_POINT *P, const uint8_t x[32], int y_is_odd) { g_other++; memset(P, 0x33, sizeof(*P)); return nondet_int(); }
int tls13_server_key_share_ext_to_bytes(const SM2_Z256_POINT *point, uint8_t **out, size_t *outlen) { *outlen += 73; return 1; }
int tls13_process_client_key_share(const uint8_t *ext_data, size_t ext_datalen, const SM2_KEY *server_ecdhe_key, SM2_Z256_POINT *client_ecdhe_public, uint8_t **out, size_t *outlen);
#ifndef EL
#define EL 71
#endif
void h_process_client_key_share(void)
{
	uint8_t *ext = malloc(EL ? EL : 1); ASSUME(ext);
	for (size_t i = 0; i < EL; i++) ext[i] = nondet_u8();
	g_verdict = nondet_int(); ASSUME(g_verdict >= -1 && g_verdict <= 1);
	SM2_KEY key; memset(&key, 0, sizeof(key)); SM2_Z256_POINT P; memset(&P, 0xEE, sizeof(P)); size_t outlen = 0;
	int ret = tls13_process_client_key_share(ext, EL, &key, &P, NULL, &outlen);
	if (ret == 1) {
#if EL >= 71
		V_COVER("client key share accepted by the server");
#endif
		CHECK(g_calls >= 1 && g_verdict == 1 && g_len == 65, "the 65 key-exchange octets passed the validating decoder");
		CHECK(g_other == 0, "no non-validating decoder was used for the peer's share");
		uint8_t *b = (uint8_t *)&P; CHECK(b[0] == 0x21 && b[sizeof(P) - 1] == 0x21, "the point handed back is the validated one");
		CHECK(g_ptr >= ext + 6 && g_ptr + 65 <= ext + EL, "the octets lie inside the extension body");
	}
	V_REACH();
}
