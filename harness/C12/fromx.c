/* C12: compressed point decoding sm2_z256_point_from_x_bytes: accepted only for x < p (full width), the stored X is the Montgomery form of exactly that x,
 * Z = 1, and the root with the requested parity is stored.  The field arithmetic (curve polynomial, square root, conversions, negation) is abstract:
 * arbitrary values / verdicts that are logged - the decision structure around it is what is decided here. */
#include <stdio.h>
#include <string.h>
#include <gmssl/sm2_z256.h>
#include "verif.h"
typedef unsigned __CPROVER_bitvector[264] W;
static W val(const uint64_t a[4]) { return (W)a[0] | ((W)a[1] << 64) | ((W)a[2] << 128) | ((W)a[3] << 192); }
static W be(const uint8_t *b) { W v = 0; for (int i = 0; i < 32; i++) v = (v << 8) | b[i]; return v; }
static uint64_t m_in[4]; static int m_calls;
void sm2_z256_modp_to_mont(const sm2_z256_t a, uint64_t r[4]) { if (m_calls++ == 0) memcpy(m_in, a, 32); uint64_t t[4]; memcpy(t, a, 32); for (int i = 0; i < 4; i++) r[i] = ~t[i]; }
void sm2_z256_modp_mont_sqr(sm2_z256_t r, const sm2_z256_t a) { for (int i = 0; i < 4; i++) r[i] = nondet_u64(); }
void sm2_z256_modp_mont_mul(sm2_z256_t r, const sm2_z256_t a, const sm2_z256_t b) { for (int i = 0; i < 4; i++) r[i] = nondet_u64(); }
void sm2_z256_modp_add(sm2_z256_t r, const sm2_z256_t a, const sm2_z256_t b) { for (int i = 0; i < 4; i++) r[i] = nondet_u64(); }
void sm2_z256_modp_sub(sm2_z256_t r, const sm2_z256_t a, const sm2_z256_t b) { for (int i = 0; i < 4; i++) r[i] = nondet_u64(); }
static int s_ret; static uint64_t s_root[4], s_plain[4];
int sm2_z256_modp_mont_sqrt(sm2_z256_t r, const sm2_z256_t a) { if (s_ret != 1) return s_ret; memcpy(r, s_root, 32); return 1; }
void sm2_z256_modp_from_mont(sm2_z256_t r, const sm2_z256_t a) { __CPROVER_assert(memcmp(a, s_root, 32) == 0, "parity is taken from the root that was computed"); memcpy(r, s_plain, 32); }
static int n_calls;
void sm2_z256_modp_neg(sm2_z256_t r, const sm2_z256_t a) { n_calls++; uint64_t t[4]; memcpy(t, a, 32); for (int i = 0; i < 4; i++) r[i] = t[i] ^ 0x5555555555555555ULL; }
extern const uint64_t *SM2_Z256_MODP_MONT_ONE;
void h_from_x_bytes(void)
{
	uint8_t xb[32]; for (int i = 0; i < 32; i++) xb[i] = nondet_u8();
	int odd = nondet_bool();
	s_ret = nondet_int(); ASSUME(s_ret >= -1 && s_ret <= 1);
	for (int i = 0; i < 4; i++) { s_root[i] = nondet_u64(); s_plain[i] = nondet_u64(); }
	SM2_Z256_POINT P; memset(&P, 0xEE, sizeof(P));
	int r = sm2_z256_point_from_x_bytes(&P, xb, odd);
	W p = val(sm2_z256_prime()), x = be(xb);
	if (r == 1) {
		V_COVER("compressed point decoded");
		CHECK(x < p, "x is below the field prime");
		CHECK(s_ret == 1, "a square root exists");
		CHECK(val(m_in) == x, "the decoded x is what is converted and stored");
		for (int i = 0; i < 4; i++) CHECK(P.X[i] == ~m_in[i] && P.Z[i] == SM2_Z256_MODP_MONT_ONE[i], "X = mont(x), Z = mont(1)");
		int plain_odd = (int)(s_plain[0] & 1);
		CHECK(n_calls == (plain_odd != odd), "the root is negated exactly when its parity differs from the requested one");
		for (int i = 0; i < 4; i++) CHECK(P.Y[i] == (plain_odd != odd ? (s_root[i] ^ 0x5555555555555555ULL) : s_root[i]), "Y = the root with the requested parity");
	} else CHECK(x >= p || s_ret != 1, "refused only for x >= p or a non-residue");
	V_REACH();
}
