/* C12-a: decision logic of the importers at full width.  Real sm2_z256.c (range compares, from_bytes, set_xy,
 * from_octets, from_x_bytes...) and sm2_key.c; the curve equation / square root / Montgomery conversions are opaque
 * oracles that record what they were asked (the equation itself is C12-b / C13). */
#include <stdio.h>
#include <string.h>
#include <gmssl/sm2.h>
#include "verif.h"

typedef unsigned __CPROVER_bitvector[264] W;
static W val(const uint64_t a[4]) { return (W)a[0] | ((W)a[1] << 64) | ((W)a[2] << 128) | ((W)a[3] << 192); }
static W valb(const uint8_t *b) { W v = 0; for (int i = 0; i < 32; i++) v = (v << 8) | b[i]; return v; }

/* "Montgomery form" modelled as the identity so that the oracle sees the plain coordinates */
void sm2_z256_modp_to_mont(const sm2_z256_t a, uint64_t r[4]) { uint64_t t0 = a[0], t1 = a[1], t2 = a[2], t3 = a[3]; r[0] = t0; r[1] = t1; r[2] = t2; r[3] = t3; }
void sm2_z256_modp_from_mont(sm2_z256_t r, const sm2_z256_t a) { uint64_t t0 = a[0], t1 = a[1], t2 = a[2], t3 = a[3]; r[0] = t0; r[1] = t1; r[2] = t2; r[3] = t3; }
static int g_oncurve_verdict, g_oncurve_calls; static uint64_t g_ocx[4], g_ocy[4], g_ocz[4];
int sm2_z256_point_is_on_curve(const SM2_Z256_POINT *P)
{
	g_oncurve_calls++; memcpy(g_ocx, P->X, 32); memcpy(g_ocy, P->Y, 32); memcpy(g_ocz, P->Z, 32);
	/* one fact about the real equation: (0,0) is not on the curve (b != 0) */
	if (sm2_z256_is_zero(P->X) && sm2_z256_is_zero(P->Y) && !sm2_z256_is_zero(P->Z)) return 0;
	return g_oncurve_verdict;
}
static int g_fromx_calls, g_fromx_verdict, g_fromx_odd; static const uint8_t *g_fromx_ptr;
int sm2_z256_point_from_x_bytes(SM2_Z256_POINT *P, const uint8_t x_bytes[32], int y_is_odd)
{ g_fromx_calls++; g_fromx_odd = y_is_odd; g_fromx_ptr = x_bytes; uint8_t a = x_bytes[0], b = x_bytes[31]; (void)a; (void)b; if (g_fromx_verdict == 1) memset(P, 0x44, sizeof(*P)); return g_fromx_verdict; }
/* mont(1) is a library constant; with the identity Montgomery map a normalised Z is whatever the library uses */
static int g_mulgen_calls; static uint64_t g_mulgen_k[4];
void sm2_z256_point_mul_generator(SM2_Z256_POINT *R, const sm2_z256_t k) { g_mulgen_calls++; memcpy(g_mulgen_k, k, 32); memset(R, 0x77, sizeof(*R)); }

void h_from_bytes(void)
{
	uint8_t in[64]; for (int i = 0; i < 64; i++) in[i] = nondet_u8();
	g_oncurve_verdict = nondet_bool();
	SM2_Z256_POINT P; memset(&P, 0xEE, sizeof(P));
	int which = nondet_bool(), ret;
	W p = val(sm2_z256_prime()), x = valb(in), y = valb(in + 32);
	if (which) ret = sm2_z256_point_from_bytes(&P, in);
	else { sm2_z256_t xx, yy; sm2_z256_from_bytes(xx, in); sm2_z256_from_bytes(yy, in + 32); ret = sm2_z256_point_set_xy(&P, xx, yy); }
	if (ret == 1) {
		V_COVER("accept path 1");
		CHECK(x < p && y < p, "accepted coordinates are below the field prime");
		CHECK(g_oncurve_calls == 1 && g_oncurve_verdict == 1, "curve equation consulted and satisfied");
		CHECK(val(g_ocx) == x && val(g_ocy) == y, "the equation was checked on exactly the decoded coordinates");
		CHECK(!(x == 0 && y == 0), "(0,0) is never a successfully imported point");
	}
	if (x < p && y < p && g_oncurve_verdict && !(x == 0 && y == 0)) CHECK(ret == 1, "every in-range on-curve point is accepted");
	V_REACH();
}

/* octet strings: every prefix byte, several lengths (exclusive case split, exact-size input object) */
static uint8_t g_in[66];
static int octets_len(size_t n)
{
	SM2_Z256_POINT P; memset(&P, 0xEE, sizeof(P));
	uint8_t *obj = malloc(n ? n : 1); ASSUME(obj);
	for (size_t i = 0; i < n; i++) obj[i] = g_in[i];
	return sm2_z256_point_from_octets(&P, obj, n);
}
void h_from_octets(void)
{
	for (int i = 0; i < 66; i++) g_in[i] = nondet_u8();
	size_t inlen = nondet_size();
	g_oncurve_verdict = nondet_bool();
	g_fromx_verdict = nondet_int(); ASSUME(g_fromx_verdict >= -1 && g_fromx_verdict <= 1);
	int ret = -9;
	if (inlen == 0) ret = octets_len(0);
	else if (inlen == 1) ret = octets_len(1);
	else if (inlen == 2) ret = octets_len(2);
	else if (inlen == 33) ret = octets_len(33);
	else if (inlen == 64) ret = octets_len(64);
	else if (inlen == 65) ret = octets_len(65);
	else { ASSUME(inlen == 66); ret = octets_len(66); }
	W p = val(sm2_z256_prime());
	if (ret == 1 && inlen == 33) {
		CHECK((g_in[0] == 2 || g_in[0] == 3) && g_fromx_calls == 1 && g_fromx_verdict == 1, "33 octets: only 02/03 || X, and only if decompression succeeded");
		CHECK(g_fromx_odd == (g_in[0] == 3), "prefix 02 selects the even root, 03 the odd root");
	} else if (ret == 1) {
		V_COVER("accept path 2");
		CHECK(inlen == 65 && g_in[0] == 0x04, "otherwise only 04 || X || Y is accepted");
		W x = valb(g_in + 1), y = valb(g_in + 33);
		CHECK(x < p && y < p && !(x == 0 && y == 0), "coordinates in range, not (0,0)");
		CHECK(g_oncurve_calls >= 1 && g_oncurve_verdict == 1 && val(g_ocx) == x && val(g_ocy) == y, "curve equation satisfied by the decoded coordinates");
	}
	V_REACH();
}

/* private scalars: accepted iff 1 <= d <= n-2 */
void h_private_key_range(void)
{
	uint64_t d[4] = { nondet_u64(), nondet_u64(), nondet_u64(), nondet_u64() };
	SM2_KEY key; memset(&key, 0, sizeof(key));
	int ret = sm2_key_set_private_key(&key, d);
	W n = val(sm2_z256_order()), v = val(d);
	CHECK((ret == 1) == (v >= 1 && v <= n - 2), "private scalar accepted iff 1 <= d <= n-2");
	if (ret == 1) CHECK(g_mulgen_calls == 1 && val(g_mulgen_k) == v && val(key.private_key) == v, "public key derived from exactly this scalar");
	V_REACH();
}
