/* C12: peer key shares (TLS 1.3) are accepted only through the validating point decoder */
#include <stdio.h>
#include <string.h>
#include <gmssl/tls.h>
#include <gmssl/sm2.h>
#include "verif.h"
static int g_calls, g_verdict; static const uint8_t *g_ptr; static size_t g_len;
int sm2_z256_point_from_octets(SM2_Z256_POINT *P, const uint8_t *in, size_t inlen) { g_calls++; g_ptr = in; g_len = inlen; if (g_verdict == 1) memset(P, 0x21, sizeof(*P)); return g_verdict; }
int tls13_process_server_key_share(const uint8_t *ext_data, size_t ext_datalen, SM2_Z256_POINT *point);
int tls_client_key_shares_from_bytes(SM2_Z256_POINT *sm2_point, const uint8_t **in, size_t *inlen);
#ifndef EL
#define EL 69
#endif
void h_server_key_share(void)
{
	uint8_t *ext = malloc(EL ? EL : 1); ASSUME(ext);           /* exact-size extension body */
	for (size_t i = 0; i < EL; i++) ext[i] = nondet_u8();
	g_verdict = nondet_int(); ASSUME(g_verdict >= -1 && g_verdict <= 1);
	SM2_Z256_POINT P; memset(&P, 0xEE, sizeof(P));
	int ret = tls13_process_server_key_share(ext, EL, &P);
	if (ret == 1) {
#if EL == 69
		V_COVER("server key share accepted");
#endif
		CHECK(EL == 69 && ext[0] == 0 && ext[1] == 41 && ext[2] == 0 && ext[3] == 65, "group sm2p256v1 (41), 65 key-exchange octets, nothing else");
		CHECK(g_calls == 1 && g_ptr == ext + 4 && g_len == 65 && g_verdict == 1, "the 65 octets went through the validating decoder and it accepted them");
	}
	V_REACH();
}
void h_client_key_shares(void)
{
	uint8_t *buf = malloc(EL ? EL : 1); ASSUME(buf);
	for (size_t i = 0; i < EL; i++) buf[i] = nondet_u8();
	g_verdict = nondet_int(); ASSUME(g_verdict >= -1 && g_verdict <= 1);
	SM2_Z256_POINT P; memset(&P, 0xEE, sizeof(P));
	const uint8_t *p = buf; size_t l = EL;
	int ret = tls_client_key_shares_from_bytes(&P, &p, &l);
	if (ret == 1 && g_calls > 0) {
#if EL >= 71      /* a list with one share is 2 + 4 + 65 bytes */
		V_COVER("client key share accepted");
#endif
 CHECK(g_verdict == 1 && g_len == 65, "every share that was imported passed the validating decoder"); }
	V_REACH();
}
