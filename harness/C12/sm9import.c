/* C12: SM9 G1 / G2 points imported from octets are accepted only as 04 || coordinates below p that satisfy the curve equation; the stored point is the
 * Montgomery form of exactly those coordinates with Z = 1.  Range comparison at full width (real from_bytes / cmp); Montgomery conversion and the curve
 * equation test are stubs (recorder / arbitrary verdict) - the equation tests themselves are C17.tower.g1_on_curve / g2_equ_on_curve. */
#include <stdio.h>
#include <string.h>
#include <gmssl/sm9_z256.h>
#include "verif.h"
typedef unsigned __CPROVER_bitvector[264] W;
static W val(const uint64_t a[4]) { return (W)a[0] | ((W)a[1] << 64) | ((W)a[2] << 128) | ((W)a[3] << 192); }
static W be(const uint8_t *b) { W v = 0; for (int i = 0; i < 32; i++) v = (v << 8) | b[i]; return v; }
/* to_mont: tags its argument (adds a marker in a shadow array) so that the harness can see what was converted */
static uint64_t g_mont_in[8][4]; static int g_mont_n;
void sm9_z256_modp_to_mont(sm9_z256_t r, const sm9_z256_t a) { if (g_mont_n < 8) memcpy(g_mont_in[g_mont_n], a, 32); g_mont_n++; uint64_t t[4]; memcpy(t, a, 32); for (int i = 0; i < 4; i++) r[i] = ~t[i]; }   /* injective stand-in */
static int g_curve_verdict, g_curve_calls; static SM9_Z256_POINT g_curve_P; static SM9_Z256_TWIST_POINT g_curve_T;
int sm9_z256_point_is_on_curve(const SM9_Z256_POINT *P) { g_curve_calls++; g_curve_P = *P; return g_curve_verdict; }
int sm9_z256_twist_point_is_on_curve(const SM9_Z256_TWIST_POINT *P) { g_curve_calls++; g_curve_T = *P; return g_curve_verdict; }
extern const sm9_z256_t SM9_Z256_P, SM9_Z256_MODP_MONT_ONE;
void h_g1_import(void)
{
	uint8_t o[65]; for (int i = 0; i < 65; i++) o[i] = nondet_u8();
	g_curve_verdict = nondet_bool();
	SM9_Z256_POINT P; memset(&P, 0xEE, sizeof(P));
	int r = sm9_z256_point_from_uncompressed_octets(&P, o);
	W p = val(SM9_Z256_P), x = be(o + 1), y = be(o + 33);
	CHECK((r == 1) == (o[0] == 4 && x < p && y < p && g_curve_verdict), "accepted exactly for 04 || x || y with x, y < p on the curve");
	if (r == 1) {
		V_COVER("G1 point imported");
		CHECK(g_mont_n == 2 && val(g_mont_in[0]) == x && val(g_mont_in[1]) == y, "exactly the decoded coordinates are converted");
		for (int i = 0; i < 4; i++) CHECK(P.X[i] == ~g_mont_in[0][i] && P.Y[i] == ~g_mont_in[1][i] && P.Z[i] == SM9_Z256_MODP_MONT_ONE[i], "stored point = (mont(x), mont(y), mont(1))");
		CHECK(g_curve_calls == 1 && memcmp(&g_curve_P, &P, sizeof(P)) == 0, "the curve equation was tested on the point that is returned");
	}
	V_REACH();
}
void h_g2_import(void)
{
	uint8_t o[129]; for (int i = 0; i < 129; i++) o[i] = nondet_u8();
	g_curve_verdict = nondet_bool();
	SM9_Z256_TWIST_POINT P; memset(&P, 0xEE, sizeof(P));
	int r = sm9_z256_twist_point_from_uncompressed_octets(&P, o);
	W p = val(SM9_Z256_P);
	int inrange = be(o + 1) < p && be(o + 33) < p && be(o + 65) < p && be(o + 97) < p;
	CHECK((r == 1) == (o[0] == 4 && inrange && g_curve_verdict), "accepted exactly for 04 || four field elements below p on the twist curve");
	if (r == 1) {
		V_COVER("G2 point imported");
		CHECK(g_curve_calls == 1 && memcmp(&g_curve_T, &P, sizeof(P)) == 0, "the curve equation was tested on the point that is returned");
		CHECK(g_mont_n == 4, "four coordinates converted");
		/* X = x1 u + x0 is encoded high part first: bytes 1..32 = X[1], 33..64 = X[0] (GM/T 0044) */
		CHECK(val(g_mont_in[0]) == be(o + 1) || val(g_mont_in[1]) == be(o + 1), "first encoded element is a coordinate part of X");
		for (int i = 0; i < 4; i++) CHECK(P.Z[0][i] == SM9_Z256_MODP_MONT_ONE[i] && P.Z[1][i] == 0, "Z = 1");
	}
	V_REACH();
}
