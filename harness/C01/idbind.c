/* C01-d: the ID bound into Z is exactly the idlen bytes passed.  Real sm2_compute_z, sm2_sign_init,
 * sm2_verify_init; SM3 = stream recorder (M2). */
#include <stdio.h>
#include <string.h>
#include <gmssl/sm2.h>
#include "verif.h"
#include "sm3_rec.h"

#ifndef IDMAX
#define IDMAX 20
#endif

static uint8_t g_pub[64];
int sm2_z256_point_to_bytes(const SM2_Z256_POINT *P, uint8_t out[64]) { memcpy(out, g_pub, 64); return 1; }

static const uint8_t CURVE[128] = { /* a, b, Gx, Gy of GB/T 32918.5 */
	0xFF,0xFF,0xFF,0xFE,0xFF,0xFF,0xFF,0xFF,0xFF,0xFF,0xFF,0xFF,0xFF,0xFF,0xFF,0xFF,0xFF,0xFF,0xFF,0xFF,0x00,0x00,0x00,0x00,0xFF,0xFF,0xFF,0xFF,0xFF,0xFF,0xFF,0xFC,
	0x28,0xE9,0xFA,0x9E,0x9D,0x9F,0x5E,0x34,0x4D,0x5A,0x9E,0x4B,0xCF,0x65,0x09,0xA7,0xF3,0x97,0x89,0xF5,0x15,0xAB,0x8F,0x92,0xDD,0xBC,0xBD,0x41,0x4D,0x94,0x0E,0x93,
	0x32,0xC4,0xAE,0x2C,0x1F,0x19,0x81,0x19,0x5F,0x99,0x04,0x46,0x6A,0x39,0xC9,0x94,0x8F,0xE3,0x0B,0xBF,0xF2,0x66,0x0B,0xE1,0x71,0x5A,0x45,0x89,0x33,0x4C,0x74,0xC7,
	0xBC,0x37,0x36,0xA2,0xF4,0xF6,0x77,0x9C,0x59,0xBD,0xCE,0xE3,0x6B,0x69,0x21,0x53,0xD0,0xA9,0x87,0x7C,0xC6,0x2A,0x47,0x40,0x02,0xDF,0x32,0xE5,0x21,0x39,0xF0,0xA0,
};

#ifndef PROBE_SM3
static void check_z_stream(int k, const char *id, size_t idlen)
{
	const uint8_t *st = rec_slots[rec_fin[k].slot].buf;
	size_t n = rec_fin[k].len;
	CHECK(n == 2 + idlen + 128 + 64, "Z input length = 2 + idlen + 192");
	CHECK(st[0] == (uint8_t)((idlen * 8) >> 8) && st[1] == (uint8_t)(idlen * 8), "ENTL = bit length of the ID, big-endian");
	for (size_t i = 0; i < idlen; i++) CHECK(st[2 + i] == (uint8_t)id[i], "ID bytes bound verbatim");
	for (size_t i = 0; i < 128; i++) CHECK(st[2 + idlen + i] == CURVE[i], "a || b || Gx || Gy");
	for (size_t i = 0; i < 64; i++) CHECK(st[2 + idlen + 128 + i] == g_pub[i], "Px || Py");
}

static void compute_z_len(size_t idlen)  /* idlen concrete on this path */
{
	char *id = malloc(idlen);            /* exactly idlen bytes, no terminator: over-read = bounds violation */
	ASSUME(id != NULL);
	for (size_t i = 0; i < idlen; i++) id[i] = (char)nondet_u8();
	SM2_Z256_POINT P; memset(&P, 0, sizeof(P));
	uint8_t z[32];
	CHECK(sm2_compute_z(z, &P, id, idlen) == 1, "compute_z ok");
	CHECK(rec_n_fin == 1, "one digest computed");
	check_z_stream(0, id, idlen);
	for (int i = 0; i < 32; i++) CHECK(z[i] == rec_fin[0].dgst[i], "Z is that digest");
}
void h_compute_z(void)
{
	size_t idlen = nondet_size();
	ASSUME(idlen >= 1 && idlen <= IDMAX);
	for (int i = 0; i < 64; i++) g_pub[i] = nondet_u8();
	for (size_t L = 1; L <= IDMAX; L++) if (idlen == L) { compute_z_len(L); break; }  /* exclusive case split keeps lengths and recorder state concrete */
	V_REACH();
}

#endif
/* the length limit for every idlen: sm2_sign_init/sm2_verify_init guard + the
 * 16-bit bit-length encoding; sm2_compute_z replaced by a probe that records (id, idlen). */
#ifdef PROBE_SM3
/* ENTL bytes for every idlen in 1..8191: SM3 replaced by a probe that looks at the update calls only */
static int g_upd; static uint8_t g_h0, g_h1; static size_t g_l0, g_l1, g_l2; static const uint8_t *g_p1;
void sm3_init(SM3_CTX *ctx) { g_upd = 0; }
void sm3_update(SM3_CTX *ctx, const uint8_t *data, size_t len)
{
	if (g_upd == 0) { g_l0 = len; if (len >= 2) { g_h0 = data[0]; g_h1 = data[1]; } }
	else if (g_upd == 1) { g_p1 = data; g_l1 = len; }
	else if (g_upd == 2) { g_l2 = len; }
	g_upd++;
}
void sm3_finish(SM3_CTX *ctx, uint8_t d[32]) { memset(d, 0, 32); }
void h_entl(void)
{
	static char idbuf[8191];
	size_t idlen = nondet_size();
	ASSUME(idlen >= 1 && idlen <= 8191);
	idbuf[0] = 'x';                     /* not the default ID (that shortcut is covered by h_compute_z) */
	SM2_Z256_POINT P; memset(&P, 0, sizeof(P));
	uint8_t z[32];
	CHECK(sm2_compute_z(z, &P, idbuf, idlen) == 1, "compute_z ok");
	CHECK(g_upd == 3 && g_l0 == 2 && g_l1 == idlen && g_p1 == (const uint8_t *)idbuf && g_l2 == 192, "updates: 2-byte ENTL, id[0..idlen), 192 bytes");
	CHECK(g_h0 == (uint8_t)((idlen * 8) >> 8) && g_h1 == (uint8_t)(idlen * 8), "ENTL = 16-bit bit length for every idlen");
	V_REACH();
}
#endif
static size_t g_probe_idlen; static const char *g_probe_id; static int g_probe_calls;
#if defined(PROBE_Z)
int sm2_compute_z(uint8_t z[32], const SM2_Z256_POINT *pub, const char *id, size_t idlen)
{ g_probe_calls++; g_probe_id = id; g_probe_idlen = idlen; memset(z, 0, 32); return 1; }
int sm2_fast_sign_pre_compute(SM2_SIGN_PRE_COMP pre_comp[32]) { return 1; }
int sm2_fast_sign_compute_key(const SM2_KEY *key, sm2_z256_t fast_private) { return 1; }
void h_idlen_limit(void)
{
	static char idbuf[4];
	size_t idlen = nondet_size();     /* any size_t */
	SM2_KEY key; memset(&key, 0, sizeof(key));
	int which = nondet_bool();
	int ret;
	if (which) { static SM2_VERIFY_CTX vctx; ret = sm2_verify_init(&vctx, &key, idbuf, idlen); }
	else { static SM2_SIGN_CTX sctx; ret = sm2_sign_init(&sctx, &key, idbuf, idlen); }
	if (idlen < 1 || idlen > 8191) CHECK(ret != 1 && g_probe_calls == 0, "idlen outside 1..8191 refused before hashing");
	else CHECK(ret == 1 && g_probe_calls == 1 && g_probe_idlen == idlen && g_probe_id == idbuf, "idlen 1..8191 passed through unchanged");
	V_REACH();
}
#elif !defined(PROBE_SM3)
/* verify_init feeds Z (and only Z) before the message */
static void init_binds_len(size_t idlen)
{
	char *id = malloc(idlen); ASSUME(id != NULL);
	for (size_t i = 0; i < idlen; i++) id[i] = (char)nondet_u8();
	static SM2_VERIFY_CTX ctx; SM2_KEY key; memset(&key, 0, sizeof(key));
	CHECK(sm2_verify_init(&ctx, &key, id, idlen) == 1, "verify_init ok");
	CHECK(rec_n_fin == 1, "Z computed once");
	check_z_stream(0, id, idlen);
	size_t n; const uint8_t *st = rec_ctx_stream(&ctx.sm3_ctx, &n);
	CHECK(n == 32, "message hash starts with exactly Z");
	for (int i = 0; i < 32; i++) CHECK(st[i] == rec_fin[0].dgst[i], "message hash prefix is Z");
	uint8_t m[3] = { nondet_u8(), nondet_u8(), nondet_u8() };
	sm2_verify_update(&ctx, m, 3);
	st = rec_ctx_stream(&ctx.sm3_ctx, &n);
	CHECK(n == 35 && st[32] == m[0] && st[33] == m[1] && st[34] == m[2], "then the message bytes");
	/* reset returns to the state right after Z */
	sm2_verify_reset(&ctx);
	st = rec_ctx_stream(&ctx.sm3_ctx, &n);
	CHECK(n == 32, "reset: back to Z only");
}
void h_init_binds_z(void)
{
	size_t idlen = nondet_size();
	ASSUME(idlen >= 1 && idlen <= 4);
	for (int i = 0; i < 64; i++) g_pub[i] = nondet_u8();
	for (size_t L = 1; L <= 4; L++) if (idlen == L) { init_binds_len(L); break; }
	V_REACH();
}
#endif
