/* C01-c: strict DER for SM2 signatures.  Real sm2_signature_from_der/to_der, sm2_verify,
 * sm2_verify_finish and asn1.c; verifier core stubbed (accepts, records the decoded (r,s)). */
#include <stdio.h>
#include <string.h>
#include <gmssl/sm2.h>
#include <gmssl/sm3.h>
#include <gmssl/asn1.h>
#include "verif.h"

#ifndef LMAX
#define LMAX 16
#endif

static SM2_SIGNATURE g_seen; static int g_core_calls;
int sm2_do_verify(const SM2_KEY *key, const uint8_t dgst[32], const SM2_SIGNATURE *sig)
{ g_core_calls++; g_seen = *sig; return 1; }
int sm2_fast_verify(const SM2_Z256_POINT T[16], const uint8_t dgst[32], const SM2_SIGNATURE *sig)
{ g_core_calls++; g_seen = *sig; return 1; }
void sm3_finish(SM3_CTX *ctx, uint8_t dgst[32]) { for (int i = 0; i < 32; i++) dgst[i] = nondet_u8(); }

static void canonical(const uint8_t *buf, size_t len)
{
	uint8_t out[SM2_MAX_SIGNATURE_SIZE + 8]; uint8_t *p = out; size_t outlen = 0;
	CHECK(sm2_signature_to_der(&g_seen, &p, &outlen) == 1, "re-encode");
	CHECK(outlen == len, "accepted encoding has the canonical length (no trailing bytes, minimal lengths)");
	for (size_t i = 0; i < LMAX; i++)
		if (i < len) CHECK(out[i] == buf[i], "accepted encoding is byte-identical to the canonical DER");
}

/* every byte string of length <= LMAX offered to sm2_verify */
void h_verify_der(void)
{
	size_t len = nondet_size();
	ASSUME(len >= 1 && len <= LMAX);
	uint8_t *buf = malloc(len);           /* exact-size object: any over-read is a bounds violation */
	ASSUME(buf != NULL);
	for (size_t i = 0; i < LMAX; i++) if (i < len) buf[i] = nondet_u8();
	SM2_KEY key; uint8_t dgst[32];
	memset(&key, 0, sizeof(key)); memset(dgst, 0, 32);
	int ret = sm2_verify(&key, dgst, buf, len);
	if (ret == 1) {
		CHECK(g_core_calls == 1, "core verifier consulted");
		canonical(buf, len);
	}
	V_REACH();
}
void h_verify_finish_der(void)
{
	size_t len = nondet_size();
	ASSUME(len >= 1 && len <= LMAX);
	uint8_t *buf = malloc(len);
	ASSUME(buf != NULL);
	for (size_t i = 0; i < LMAX; i++) if (i < len) buf[i] = nondet_u8();
	SM2_VERIFY_CTX ctx; memset(&ctx, 0, sizeof(ctx));
	int ret = sm2_verify_finish(&ctx, buf, len);
	if (ret == 1) {
		CHECK(g_core_calls == 1, "core verifier consulted");
		canonical(buf, len);
	}
	V_REACH();
}

/* capacity: lengths symbolic up to a 110-byte object with arbitrary contents: r or s longer than
 * 32 bytes must be refused and nothing may be written outside the SM2_SIGNATURE object. */
void h_from_der_capacity(void)
{
	uint8_t buf[110];
	v_havoc(buf, sizeof(buf));
	size_t len = nondet_size();
	ASSUME(len <= sizeof(buf));
	struct { uint8_t guard0[40]; SM2_SIGNATURE sig; uint8_t guard1[40]; } o;
	memset(&o, 0xA5, sizeof(o));
	const uint8_t *p = buf; size_t l = len;
	int ret = sm2_signature_from_der(&o.sig, &p, &l);
	for (int i = 0; i < 40; i++) CHECK(o.guard0[i] == 0xA5 && o.guard1[i] == 0xA5, "no write outside SM2_SIGNATURE");
	if (ret == 1) {
		CHECK(p >= buf && p <= buf + len && l == (size_t)(buf + len - p), "cursor stays inside the input");
	}
	V_REACH();
}

/* encoder: to_der(sig) for all (r,s); dry-run length = written length; decodes back to the same (r,s) */
void h_sig_roundtrip(void)
{
	SM2_SIGNATURE sig, back;
	for (int i = 0; i < 32; i++) { sig.r[i] = nondet_u8(); sig.s[i] = nondet_u8(); }
	size_t dry = 0;
	CHECK(sm2_signature_to_der(&sig, NULL, &dry) == 1, "dry run");
	uint8_t out[SM2_MAX_SIGNATURE_SIZE];
	CHECK(dry <= SM2_MAX_SIGNATURE_SIZE, "fits SM2_MAX_SIGNATURE_SIZE");
	uint8_t *p = out; size_t outlen = 0;
	CHECK(sm2_signature_to_der(&sig, &p, &outlen) == 1, "encode");
	CHECK(outlen == dry && p == out + dry, "dry-run length equals bytes written");
	CHECK(dry <= SM2_MAX_SIGNATURE_SIZE, "fits SM2_MAX_SIGNATURE_SIZE");
	const uint8_t *cp = out; size_t l = outlen;
	CHECK(sm2_signature_from_der(&back, &cp, &l) == 1 && l == 0, "decodes, consuming everything");
	for (int i = 0; i < 32; i++) CHECK(back.r[i] == sig.r[i] && back.s[i] == sig.s[i], "same (r,s)");
	V_REACH();
}
