/* C01-c: strict DER for SM2 signatures.  Real sm2_signature_from_der/to_der, sm2_verify,
 * sm2_verify_finish and asn1.c; verifier core stubbed (accepts, records the decoded (r,s)). */
#include <stdio.h>
#include <string.h>
#include <gmssl/sm2.h>
#include <gmssl/sm3.h>
#include <gmssl/asn1.h>
#include "verif.h"

#ifndef LMAX
#define LMAX 16
#endif

static SM2_SIGNATURE g_seen; static int g_core_calls;
int sm2_do_verify(const SM2_KEY *key, const uint8_t dgst[32], const SM2_SIGNATURE *sig)
{ g_core_calls++; g_seen = *sig; return 1; }
int sm2_fast_verify(const SM2_Z256_POINT T[16], const uint8_t dgst[32], const SM2_SIGNATURE *sig)
{ g_core_calls++; g_seen = *sig; return 1; }
void sm3_finish(SM3_CTX *ctx, uint8_t dgst[32]) { for (int i = 0; i < 32; i++) dgst[i] = nondet_u8(); }

/* independent statement of "one strictly DER-encoded SEQUENCE of two INTEGERs, nothing else" (X.690 8.3, 10.1)
 * for total lengths < 130, and of the value decoded from it */
static int minimal_nonneg(const uint8_t *c, size_t n)
{
	if (n < 1) return 0;
	if (c[0] & 0x80) return 0;                       /* negative */
	if (n > 1 && c[0] == 0 && !(c[1] & 0x80)) return 0; /* superfluous leading zero */
	return 1;
}
static void canonical(const uint8_t *buf, size_t len)
{
	CHECK(len >= 8 && len <= 72, "accepted signature is 8..72 bytes");
	CHECK(buf[0] == 0x30 && buf[1] == len - 2, "SEQUENCE, definite short length covering the whole input");
	size_t rl = buf[3];
	CHECK(buf[2] == 0x02 && rl >= 1 && rl <= 33 && 4 + rl + 2 <= len, "INTEGER r header");
	size_t so = 4 + rl, sl = buf[so + 1];
	CHECK(buf[so] == 0x02 && sl >= 1 && sl <= 33 && so + 2 + sl == len, "INTEGER s header, no trailing bytes");
	CHECK(minimal_nonneg(buf + 4, rl) && minimal_nonneg(buf + so + 2, sl), "r, s minimal non-negative");
	/* decoded value = content, right-aligned */
	for (size_t i = 0; i < 32; i++) {
		uint8_t er = 0, es = 0;
		size_t rskip = (rl == 33) ? 1 : 0, rn = rl - rskip;   /* 33-byte content has a leading 00 */
		size_t sskip = (sl == 33) ? 1 : 0, sn = sl - sskip;
		if (i >= 32 - rn) er = buf[4 + rskip + (i - (32 - rn))];
		if (i >= 32 - sn) es = buf[so + 2 + sskip + (i - (32 - sn))];
		CHECK(g_seen.r[i] == er && g_seen.s[i] == es, "decoded (r,s) equals the encoded integers");
	}
}

/* every byte string of length <= LMAX offered to sm2_verify / sm2_verify_finish (length case-split) */
static void run_len(size_t len, int finish)
{
	uint8_t *buf = malloc(len);           /* exact-size object: any over-read is a bounds violation */
	ASSUME(buf != NULL);
	for (size_t i = 0; i < len; i++) buf[i] = nondet_u8();
	int ret;
	if (!finish) {
		SM2_KEY key; uint8_t dgst[32];
		memset(&key, 0, sizeof(key)); memset(dgst, 0, 32);
		ret = sm2_verify(&key, dgst, buf, len);
	} else {
		static SM2_VERIFY_CTX ctx;
		ret = sm2_verify_finish(&ctx, buf, len);
	}
	if (ret == 1) {
		V_COVER("accept path 1");
		CHECK(g_core_calls == 1, "core verifier consulted");
		canonical(buf, len);
	}
}
void h_verify_der(void)
{
	size_t len = nondet_size();
	ASSUME(len >= 1 && len <= LMAX);
	for (size_t L = 1; L <= LMAX; L++) if (len == L) { run_len(L, 0); break; }
	V_REACH();
}
void h_verify_finish_der(void)
{
	size_t len = nondet_size();
	ASSUME(len >= 1 && len <= LMAX);
	for (size_t L = 1; L <= LMAX; L++) if (len == L) { run_len(L, 1); break; }
	V_REACH();
}

/* capacity: lengths symbolic up to a 110-byte object with arbitrary contents: r or s longer than
 * 32 bytes must be refused and nothing may be written outside the SM2_SIGNATURE object. */
void h_from_der_capacity(void)
{
	uint8_t buf[110];
	v_havoc(buf, sizeof(buf));
	size_t len = nondet_size();
	ASSUME(len <= sizeof(buf));
	struct { uint8_t guard0[40]; SM2_SIGNATURE sig; uint8_t guard1[40]; } o;
	memset(&o, 0xA5, sizeof(o));
	const uint8_t *p = buf; size_t l = len;
	int ret = sm2_signature_from_der(&o.sig, &p, &l);
	for (int i = 0; i < 40; i++) CHECK(o.guard0[i] == 0xA5 && o.guard1[i] == 0xA5, "no write outside SM2_SIGNATURE");
	if (ret == 1) {
		V_COVER("accept path 2");
		CHECK(p >= buf && p <= buf + len && l == (size_t)(buf + len - p), "cursor stays inside the input");
	}
	V_REACH();
}

/* encoder: to_der(sig) for all (r,s); dry-run length = written length; decodes back to the same (r,s) */
void h_sig_roundtrip(void)
{
	SM2_SIGNATURE sig, back;
	for (int i = 0; i < 32; i++) { sig.r[i] = nondet_u8(); sig.s[i] = nondet_u8(); }
	size_t dry = 0;
	CHECK(sm2_signature_to_der(&sig, NULL, &dry) == 1, "dry run");
	uint8_t out[SM2_MAX_SIGNATURE_SIZE];
	CHECK(dry <= SM2_MAX_SIGNATURE_SIZE, "fits SM2_MAX_SIGNATURE_SIZE");
	uint8_t *p = out; size_t outlen = 0;
	CHECK(sm2_signature_to_der(&sig, &p, &outlen) == 1, "encode");
	CHECK(outlen == dry && p == out + dry, "dry-run length equals bytes written");
	CHECK(dry <= SM2_MAX_SIGNATURE_SIZE, "fits SM2_MAX_SIGNATURE_SIZE");
	const uint8_t *cp = out; size_t l = outlen;
	CHECK(sm2_signature_from_der(&back, &cp, &l) == 1 && l == 0, "decodes, consuming everything");
	for (int i = 0; i < 32; i++) CHECK(back.r[i] == sig.r[i] && back.s[i] == sig.s[i], "same (r,s)");
	V_REACH();
}
