/* C01-a: SM2 sign/verify algebra, real src/sm2_sign.c over the small-field instantiation (M4). */
#include <stdio.h>
#include <string.h>
#include <gmssl/sm2.h>
#include "verif.h"
#include "sm2_small.h"

#define Q SMALL_Q

static void mk_key(SM2_KEY *key, uint64_t d)
{
	memset(key, 0, sizeof(*key));
	key->private_key[0] = d;
	mp_set(&key->public_key, d % Q);
}
/* digest whose big-endian value is e (< 2q, mirroring 2^256 < 2n) */
static void mk_dgst(uint8_t dgst[32], uint64_t e)
{
	memset(dgst, 0, 32);
	dgst[31] = (uint8_t)e; dgst[30] = (uint8_t)(e >> 8);
}
static uint64_t be_small(const uint8_t b[32], int *ok)
{
	*ok = 1;
	for (int i = 0; i < 24; i++) if (b[i]) *ok = 0;
	uint64_t v = 0;
	for (int i = 24; i < 32; i++) v = (v << 8) | b[i];
	return v;
}
static void put_small(uint8_t b[32], uint64_t v)
{
	memset(b, 0, 32);
	for (int i = 0; i < 8; i++) b[31 - i] = (uint8_t)(v >> (8 * i));
}

/* GB/T 32918.2 signature equations for nonce k */
static void check_sig_equations(const SM2_SIGNATURE *sig, uint64_t d, uint64_t k, uint64_t e)
{
	int okr, oks;
	uint64_t r = be_small(sig->r, &okr), s = be_small(sig->s, &oks);
	CHECK(okr && oks, "r,s are reduced values");
	CHECK(k >= 1 && k < Q, "nonce in [1,n-1]");
	uint64_t x1 = g_XT[k];
	CHECK(r == (e + x1) % Q, "r = (e + x1) mod n");
	CHECK(r >= 1 && r < Q, "r in [1,n-1]");
	CHECK(s >= 1 && s < Q, "s in [1,n-1]");
	CHECK((r + k) % Q != 0, "r + k != n");
	/* s(1+d) = k - r d (mod n) */
	CHECK((s * (1 + d)) % Q == (k + Q * Q - r * d) % Q, "s = (1+d)^-1 (k - r d) mod n");
}

static void check_all_verifiers(const SM2_KEY *key, const uint8_t dgst[32], const SM2_SIGNATURE *sig)
{
	SM2_KEY pub;
	memset(&pub, 0, sizeof(pub));
	pub.public_key = key->public_key;
	CHECK(sm2_do_verify(&pub, dgst, sig) == 1, "sm2_do_verify accepts the signature");
	SM2_Z256_POINT T[16];
	sm2_z256_point_mul_pre_compute(&key->public_key, T);
	CHECK(sm2_fast_verify(T, dgst, sig) == 1, "sm2_fast_verify accepts the signature");
}

/* Retry legitimacy (inductive step of the nonce loop): whenever the signer asks for another nonce, the
 * previous one must have been 0 or one of the standard's three retry cases. */
static uint64_t h_d, h_e; static int h_check_retry;
void small_on_rand(unsigned idx)
{
	if (!h_check_retry || idx == 0) return;
	uint64_t k = g_last_k;
	if (k == 0) return;
	uint64_t r = (h_e + g_XT[k]) % Q;
	uint64_t s_times = (k + Q * Q - r * h_d) % Q;
	CHECK(r == 0 || (r + k) % Q == 0 || s_times == 0, "signer retries only for k=0, r=0, r+k=n, s=0");
}

/* sm2_do_sign: completeness + equation, every d, e, nonce sequence, x-table */
void h_do_sign(void)
{
	small_init_tables();
	uint64_t d = nondet_u64(), e = nondet_u64();
	ASSUME(d >= 1 && d <= Q - 2);
	ASSUME(e < 2 * Q);
	SM2_KEY key; mk_key(&key, d);
	uint8_t dgst[32]; mk_dgst(dgst, e);
	SM2_SIGNATURE sig;
	h_d = d; h_e = e % Q; h_check_retry = 1;
	int ret = sm2_do_sign(&key, dgst, &sig);
	h_check_retry = 0;
	CHECK(ret == 1, "sm2_do_sign succeeds");
	CHECK(g_mulgen_last_k == g_last_k, "[k]G computed for the nonce drawn");
	check_sig_equations(&sig, d, g_last_k, e % Q);
	check_all_verifiers(&key, dgst, &sig);
	V_REACH();
}

/* sm2_fast_sign_compute_key + sm2_fast_sign with an arbitrary valid pre-computed (k, x1 mod n) */
void h_fast_sign(void)
{
	small_init_tables();
	uint64_t d = nondet_u64(), e = nondet_u64(), k = nondet_u64();
	ASSUME(d >= 1 && d <= Q - 2);
	ASSUME(e < 2 * Q);
	ASSUME(k >= 1 && k < Q);
	SM2_KEY key; mk_key(&key, d);
	uint8_t dgst[32]; mk_dgst(dgst, e);
	sm2_z256_t fp;
	CHECK(sm2_fast_sign_compute_key(&key, fp) == 1, "fast key computed");
	CHECK(small_scalar_ok(fp) && (fp[0] * (1 + d)) % Q == 1, "d' = (1+d)^-1");
	SM2_SIGN_PRE_COMP pc; memset(&pc, 0, sizeof(pc));
	pc.k[0] = k; pc.x1_modn[0] = g_XT[k] % Q;
	SM2_SIGNATURE sig;
	int ret = sm2_fast_sign(fp, &pc, dgst, &sig);
	CHECK(ret == 1 || ret == 0, "sm2_fast_sign returns 1, or 0 to ask for another nonce");
	if (ret == 1) {
		V_COVER("accept path 1");
		check_sig_equations(&sig, d, k, e % Q);
		check_all_verifiers(&key, dgst, &sig);
	} else {
		/* a retry request is only legitimate in the three cases of the standard */
		uint64_t r = (e + g_XT[k]) % Q;
		uint64_t s_times = (k + Q * Q - r * d) % Q; /* s(1+d) */
		CHECK(r == 0 || (r + k) % Q == 0 || s_times == 0, "retry only for r=0, r+k=n, s=0");
	}
	V_REACH();
}
void h_fast_key_range(void)
{
	uint64_t d = nondet_u64();
	ASSUME(d < Q);
	SM2_KEY key; mk_key(&key, d);
	sm2_z256_t fp;
	int ret = sm2_fast_sign_compute_key(&key, fp);
	CHECK((ret == 1) == (d <= Q - 2), "fast key refused for d = n-1");
	V_REACH();
}

/* soundness: any (r, s, e, P): accept => range conditions and verification equation */
#ifndef VERIFY_FN
#define VERIFY_FN 0
#endif
void h_verify_sound(void)
{
	small_init_tables();
	uint64_t t = nondet_u64(), e = nondet_u64(), r = nondet_u64(), s = nondet_u64();
	ASSUME(t >= 1 && t < Q);      /* public key P = [t]G, any non-infinity point */
	ASSUME(e < 2 * Q);
	ASSUME(r < 4 * Q && s < 4 * Q); /* includes 0, n, n+-1, values above n */
	SM2_KEY key; mk_key(&key, 0); mp_set(&key.public_key, t);
	uint8_t dgst[32]; mk_dgst(dgst, e);
	SM2_SIGNATURE sig; put_small(sig.r, r); put_small(sig.s, s);
	int ret;
#if VERIFY_FN == 0
	ret = sm2_do_verify(&key, dgst, &sig);
#else
	SM2_Z256_POINT T[16];
	sm2_z256_point_mul_pre_compute(&key.public_key, T);
	ret = sm2_fast_verify(T, dgst, &sig);
#endif
	uint64_t idx = (s + ((r + s) % Q) * t) % Q;
	int valid = r >= 1 && r < Q && s >= 1 && s < Q && (r + s) % Q != 0
		&& idx != 0 && r == (e + g_XT[idx]) % Q;
	CHECK((ret == 1) == valid, "verifier accepts exactly the tuples satisfying GB/T 32918.2");
	CHECK(ret == 1 || ret < 0 || ret == 0, "ret");
	V_REACH();
}
