/* C01-e / C18-iii: one inductive step of the streaming signer's nonce store.
 * Invariant I(ctx): entries [0, num_pre_comp) hold pairwise distinct nonces that were never used.
 * From any state satisfying I, sm2_sign_finish consumes only never-used nonces and re-establishes I,
 * so no history of sign_finish calls on one context ever reuses a nonce. */
#include <stdio.h>
#include <string.h>
#include <gmssl/sm2.h>
#include "verif.h"

#define NID 160
static _Bool used[NID];
static unsigned next_id = 64;
static int fast_calls, consumed_fresh = 1, refills, refill_fail;
static int fast_verdict[4];

int sm2_fast_sign_pre_compute(SM2_SIGN_PRE_COMP pc[32])
{
	refills++;
	if (refill_fail) return -1;
	for (int i = 0; i < 32; i++) { memset(&pc[i], 0, sizeof(pc[i])); pc[i].k[0] = next_id++; }
	return 1;
}
int sm2_fast_sign(const sm2_z256_t fp, SM2_SIGN_PRE_COMP *pc, const uint8_t dgst[32], SM2_SIGNATURE *sig)
{
	uint64_t id = pc->k[0];
	__CPROVER_assert(id < NID, "nonce id in range");
	if (used[id]) consumed_fresh = 0;
	used[id] = 1;
	int v = fast_verdict[fast_calls < 3 ? fast_calls : 3];
	fast_calls++;
	memset(sig, 0, sizeof(*sig));
	return v;
}
void sm3_finish(SM3_CTX *ctx, uint8_t d[32]) { memset(d, 0, 32); }
int sm2_signature_to_der(const SM2_SIGNATURE *sig, uint8_t **out, size_t *outlen) { *outlen += 8; return 1; }

void h_sign_finish_step(void)
{
	static SM2_SIGN_CTX ctx;
	unsigned num = nondet_u32();
	ASSUME(num <= 32);
	ctx.num_pre_comp = num;
	/* invariant I; nonce identities are labels, so w.l.o.g. entry i initially holds label i */
	for (int i = 0; i < 32; i++) ctx.pre_comp[i].k[0] = i;
	for (int i = 0; i < 64; i++) used[i] = nondet_bool();
	for (unsigned i = 0; i < 32; i++) if (i < num) ASSUME(!used[i]);
	/* the signer may ask for another nonce (return 0) a bounded number of times, then succeed or fail */
	for (int i = 0; i < 4; i++) { int v = nondet_int(); ASSUME(v == 1 || v == 0 || v == -1); fast_verdict[i] = v; }
	ASSUME(fast_verdict[3] != 0);
	refill_fail = nondet_bool();
	uint8_t sigbuf[80]; size_t siglen;
	int ret = sm2_sign_finish(&ctx, sigbuf, &siglen);
	CHECK(consumed_fresh, "every nonce handed to the signer was never used before");
	if (ret == 1) CHECK(fast_calls >= 1, "a nonce was consumed");
	CHECK(ctx.num_pre_comp <= 32, "counter in range");
	/* invariant re-established */
	for (unsigned i = 0; i < 32; i++) if (i < ctx.num_pre_comp) {
		CHECK(!used[ctx.pre_comp[i].k[0]], "remaining entries are unused");
		for (unsigned j = i + 1; j < 32; j++) if (j < ctx.num_pre_comp) CHECK(ctx.pre_comp[i].k[0] != ctx.pre_comp[j].k[0], "remaining entries distinct");
	}
	if (refill_fail && refills > 0) CHECK(ret != 1, "refill failure is reported");
	V_REACH();
}
