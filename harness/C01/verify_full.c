/* C01-b: full-width range/decision logic of sm2_do_verify / sm2_fast_verify.
 * Real 256-bit integer layer (modn_add, cmp, is_zero, from_bytes); the three point operations
 * are opaque stubs that record the scalars they are given.  Exact: all 2^256 r, s, e, x. */
#include <stdio.h>
#include <string.h>
#include <gmssl/sm2.h>
#include "verif.h"

typedef unsigned __CPROVER_bitvector[264] W;
static W val(const uint64_t a[4]) { return (W)a[0] | ((W)a[1] << 64) | ((W)a[2] << 128) | ((W)a[3] << 192); }
static W valb(const uint8_t b[32]) { W v = 0; for (int i = 0; i < 32; i++) v = (v << 8) | b[i]; return v; }

static uint64_t g_s_arg[4], g_t_arg[4], g_x[4];
static int g_gen_calls, g_mul_calls, g_add_calls, g_finite;
static const void *g_mul_point;

void sm2_z256_point_mul_generator(SM2_Z256_POINT *R, const sm2_z256_t k)
{ g_gen_calls++; memcpy(g_s_arg, k, 32); memset(R, 0x11, sizeof(*R)); }
void sm2_z256_point_mul(SM2_Z256_POINT *R, const sm2_z256_t k, const SM2_Z256_POINT *P)
{ g_mul_calls++; g_mul_point = P; memcpy(g_t_arg, k, 32); memset(R, 0x22, sizeof(*R)); }
void sm2_z256_point_mul_ex(SM2_Z256_POINT *R, const uint64_t k[4], const SM2_Z256_POINT *T)
{ g_mul_calls++; g_mul_point = T; memcpy(g_t_arg, k, 32); memset(R, 0x22, sizeof(*R)); }
void sm2_z256_point_add(SM2_Z256_POINT *r, const SM2_Z256_POINT *a, const SM2_Z256_POINT *b)
{ g_add_calls++; CHECK(a->X[0] == 0x1111111111111111ULL && b->X[0] == 0x2222222222222222ULL, "[s]G + [t]P operands"); memset(r, 0x33, sizeof(*r)); }
int sm2_z256_point_get_xy(const SM2_Z256_POINT *P, uint64_t x[4], uint64_t y[4])
{
	CHECK(P->X[0] == 0x3333333333333333ULL, "x taken from [s]G + [t]P");
	if (!g_finite) { memset(x, 0, 32); return 0; }
	memcpy(x, g_x, 32);
	return 1;
}

#ifndef VERIFY_FN
#define VERIFY_FN 0
#endif
void h_verify_full(void)
{
	SM2_KEY key; SM2_Z256_POINT T[16];
	uint8_t dgst[32]; SM2_SIGNATURE sig;
	for (int i = 0; i < 32; i++) { dgst[i] = nondet_u8(); sig.r[i] = nondet_u8(); sig.s[i] = nondet_u8(); }
	for (int i = 0; i < 4; i++) g_x[i] = nondet_u64();
	g_finite = nondet_bool();
	W n = val(sm2_z256_order()), p = val(sm2_z256_prime());
	ASSUME(val(g_x) < p);
	memset(&key, 0, sizeof(key));
	int ret;
#if VERIFY_FN == 0
	ret = sm2_do_verify(&key, dgst, &sig);
	const void *pt = &key.public_key;
#else
	ret = sm2_fast_verify(T, dgst, &sig);
	const void *pt = T;
#endif
	W r = valb(sig.r), s = valb(sig.s), e = valb(dgst), x = val(g_x);
	/* all reductions are of values < 2n (2^256 < 2n and p < 2n), so one conditional subtraction is exact */
#define RED(v) ((v) >= n ? (v) - n : (v))
	CHECK((((W)1) << 256) < 2 * n && p < 2 * n, "2^256 < 2n and p < 2n");
	W t = RED(r + s);
	W er = RED(e), xr = RED(x);
	W rr = RED(er + xr);
	int valid = r >= 1 && r < n && s >= 1 && s < n && t != 0 && g_finite && r == rr;
	CHECK((ret == 1) == valid, "accept <=> r,s in [1,n-1], r+s != 0 mod n, point finite, r = (e + x1) mod n");
	if (ret == 1) {
		V_COVER("accept path 1");
		CHECK(g_gen_calls == 1 && g_mul_calls == 1 && g_add_calls == 1, "one [s]G, one [t]P, one addition");
		CHECK(val(g_s_arg) == s, "generator scalar is s");
		CHECK(val(g_t_arg) == t, "public-key scalar is t = r + s mod n");
		CHECK(g_mul_point == pt, "t multiplies the caller's public key");
	}
	V_REACH();
}
