/* C14: ASN.1 primitive codecs of src/asn1.c: round trip, dry-run length, canonicity. */
#include <stdio.h>
#include <string.h>
#include <limits.h>
#include <gmssl/asn1.h>
#include "verif.h"

#ifndef LMAX
#define LMAX 8
#endif

/* ---- length ---- */
void h_length_roundtrip(void)
{
	size_t len = nondet_size();
	ASSUME(len <= INT_MAX);
	uint8_t buf[8]; uint8_t *p = buf; size_t outlen = 0, dry = 0;
	CHECK(asn1_length_to_der(len, NULL, &dry) == 1, "dry run");
	CHECK(asn1_length_to_der(len, &p, &outlen) == 1 && outlen == dry && p == buf + dry && dry <= 5, "dry-run length = bytes written");
	/* decoder needs `len` bytes to follow: emulate with a claimed remaining length */
	const uint8_t *cp = buf; size_t inlen = dry + len; size_t back = 0;
	CHECK(asn1_length_from_der(&back, &cp, &inlen) == 1 && back == len && cp == buf + dry && inlen == len, "decode(encode(len)) = len, consumed exactly");
	V_REACH();
}
void h_length_canonical(void)
{
	uint8_t buf[5]; for (int i = 0; i < 5; i++) buf[i] = nondet_u8();
	size_t avail = nondet_size(); ASSUME(avail >= 1 && avail <= 5);
	size_t claimed = nondet_size(); ASSUME(claimed >= avail && claimed <= INT_MAX); /* inputs up to 2 GiB */   /* bytes the caller says follow (content not read) */
	const uint8_t *cp = buf; size_t inlen = claimed, len = 0;
	/* only the first `avail` bytes exist: restrict the claim so header bytes beyond are never needed */
	if (claimed > avail) ASSUME((buf[0] < 0x80 && avail >= 1) || ((buf[0] & 0x7f) + 1u <= avail));
	int ret = asn1_length_from_der(&len, &cp, &inlen);
	if (ret == 1) {
		V_COVER("accept path 1");
		uint8_t re[8]; uint8_t *p = re; size_t relen = 0;
		CHECK(asn1_length_to_der(len, &p, &relen) == 1, "re-encode");
		CHECK(relen == (size_t)(cp - buf), "accepted length has the minimal size");
		for (size_t i = 0; i < 5; i++) if (i < relen) CHECK(re[i] == buf[i], "accepted length re-encodes identically");
		CHECK(len <= inlen + 0 && inlen == claimed - relen, "content fits in the remaining input");
	}
	V_REACH();
}

/* ---- INTEGER (byte string form) ---- */
static void int_rt(size_t n)
{
	uint8_t *a = malloc(n); ASSUME(a);
	for (size_t i = 0; i < n; i++) a[i] = nondet_u8();
	uint8_t buf[LMAX + 8]; uint8_t *p = buf; size_t outlen = 0, dry = 0;
	CHECK(asn1_integer_to_der(a, n, NULL, &dry) == 1, "dry");
	CHECK(asn1_integer_to_der(a, n, &p, &outlen) == 1 && outlen == dry && p == buf + dry && dry <= n + 3, "dry-run length = bytes written");
	const uint8_t *cp = buf, *b; size_t inlen = outlen, blen;
	CHECK(asn1_integer_from_der(&b, &blen, &cp, &inlen) == 1 && inlen == 0, "decodes, consuming everything");
	/* value equality modulo leading zeros */
	size_t z = 0; while (z + 1 < n && a[z] == 0) z++;
	CHECK(blen == n - z, "minimal content");
	for (size_t i = 0; i < n; i++) if (i < blen) CHECK(b[i] == a[z + i], "same value");
}
void h_integer_roundtrip(void)
{
	size_t n = nondet_size(); ASSUME(n >= 1 && n <= LMAX);
	for (size_t k = 1; k <= LMAX; k++) if (n == k) { int_rt(k); break; }
	V_REACH();
}
static void int_canon(size_t n)
{
	uint8_t *buf = malloc(n); ASSUME(buf);
	for (size_t i = 0; i < n; i++) buf[i] = nondet_u8();
	const uint8_t *cp = buf, *b; size_t inlen = n, blen;
	int ret = asn1_integer_from_der(&b, &blen, &cp, &inlen);
	if (ret == 1) {
		V_COVER("accept path 2");
		size_t used = n - inlen;
		uint8_t re[LMAX + 8]; uint8_t *p = re; size_t relen = 0;
		CHECK(asn1_integer_to_der(b, blen, &p, &relen) == 1, "re-encode");
		CHECK(relen == used, "accepted INTEGER is minimal (re-encoding has the same length)");
		for (size_t i = 0; i < used; i++) CHECK(re[i] == buf[i], "accepted INTEGER re-encodes identically");
	}
}
void h_integer_canonical(void)
{
	size_t n = nondet_size(); ASSUME(n >= 1 && n <= LMAX);
	for (size_t k = 1; k <= LMAX; k++) if (n == k) { int_canon(k); break; }
	V_REACH();
}

/* ---- int ---- */
void h_int_roundtrip(void)
{
	int a = nondet_int(); ASSUME(a >= 0);
	uint8_t buf[8]; uint8_t *p = buf; size_t outlen = 0, dry = 0;
	CHECK(asn1_int_to_der(a, NULL, &dry) == 1, "dry");
	CHECK(asn1_int_to_der(a, &p, &outlen) == 1 && outlen == dry && dry <= 7, "dry-run length = bytes written");
	const uint8_t *cp = buf; size_t inlen = outlen; int back = -2;
	CHECK(asn1_int_from_der(&back, &cp, &inlen) == 1 && back == a && inlen == 0, "int round trip for every 0 <= a <= INT_MAX");
	V_REACH();
}
static void int_c(size_t n)
{
	uint8_t *buf = malloc(n); ASSUME(buf);
	for (size_t i = 0; i < n; i++) buf[i] = nondet_u8();
	const uint8_t *cp = buf; size_t inlen = n; int v = -2;
	int ret = asn1_int_from_der(&v, &cp, &inlen);
	if (ret == 1) {
		V_COVER("accept path 3");
		CHECK(v >= 0, "decoded int is non-negative");
		uint8_t re[8]; uint8_t *p = re; size_t relen = 0;
		CHECK(asn1_int_to_der(v, &p, &relen) == 1 && relen == n - inlen, "accepted int is minimal");
		for (size_t i = 0; i < n; i++) if (i < relen) CHECK(re[i] == buf[i], "accepted int re-encodes identically");
	}
}
void h_int_canonical(void)
{
	size_t n = nondet_size(); ASSUME(n >= 1 && n <= 8);
	for (size_t k = 1; k <= 8; k++) if (n == k) { int_c(k); break; }
	V_REACH();
}

/* ---- BOOLEAN / NULL / bits ---- */
void h_boolean(void)
{
	uint8_t buf[4]; for (int i = 0; i < 4; i++) buf[i] = nondet_u8();
	size_t n = nondet_size(); ASSUME(n <= 4);
	const uint8_t *cp = buf; size_t inlen = n; int v = -7;
	int ret = asn1_boolean_from_der(&v, &cp, &inlen);
	if (ret == 1) {
		V_COVER("accept path 4");
		CHECK(n >= 3 && buf[0] == 0x01 && buf[1] == 0x01 && (buf[2] == 0xff || buf[2] == 0x00), "accepted BOOLEAN is 01 01 00/FF");
		CHECK(v == (buf[2] == 0xff) && inlen == n - 3, "value and consumption");
	}
	int b = nondet_bool(); uint8_t out[3]; uint8_t *p = out; size_t outlen = 0;
	CHECK(asn1_boolean_to_der(b, &p, &outlen) == 1 && outlen == 3, "encode");
	cp = out; inlen = 3;
	CHECK(asn1_boolean_from_der(&v, &cp, &inlen) == 1 && v == b && inlen == 0, "BOOLEAN round trip");
	V_REACH();
}
void h_bits(void)
{
	int bits = nondet_int(); ASSUME(bits >= 0);
	uint8_t buf[10]; uint8_t *p = buf; size_t outlen = 0, dry = 0;
	int r1 = asn1_bits_to_der(bits, NULL, &dry);
	int r2 = asn1_bits_to_der(bits, &p, &outlen);
	CHECK(r1 == r2, "dry run and real run agree");
	if (r2 == 1) {
		CHECK(outlen == dry && dry <= 7, "dry-run length = bytes written");
		const uint8_t *cp = buf; size_t inlen = outlen; int back = -1;
		CHECK(asn1_bits_from_der(&back, &cp, &inlen) == 1 && back == bits && inlen == 0, "named-bit list round trip");
	}
	V_REACH();
}
