/* C14 (+C06 capacity): OIDs, SEQUENCE OF int, string validators, time strings of src/asn1.c */
#include <stdio.h>
#include <string.h>
#include <time.h>
#include <gmssl/asn1.h>
#include "verif.h"

/* ---- OID octets ---- */
#ifndef NARCS
#define NARCS 4
#endif
void h_oid_roundtrip(void)
{
	uint32_t nodes[NARCS], back[ASN1_OID_MAX_NODES]; size_t cnt = nondet_size();
	ASSUME(cnt >= 2 && cnt <= NARCS);
	for (int i = 0; i < NARCS; i++) nodes[i] = nondet_u32();
	ASSUME(nodes[0] <= 2 && nodes[1] < 40);
	uint8_t buf[1 + 5 * NARCS]; size_t dry = 0, outlen = 0, bcnt = 0;
	for (size_t c = 2; c <= NARCS; c++) if (cnt == c) {
		CHECK(asn1_object_identifier_to_octets(nodes, c, NULL, &dry) == 1, "dry");
		CHECK(asn1_object_identifier_to_octets(nodes, c, buf, &outlen) == 1 && outlen == dry && dry <= 1 + 5 * (c - 2), "dry-run length = bytes written");
		CHECK(asn1_object_identifier_from_octets(back, &bcnt, buf, outlen) == 1 && bcnt == c, "decodes to the same number of arcs");
		for (size_t i = 0; i < c; i++) CHECK(back[i] == nodes[i], "same arcs (full 32-bit range)");
		break;
	}
	V_REACH();
}
/* capacity: arbitrary octets; at most 32 arcs may ever be written */
#ifndef OIDBYTES
#define OIDBYTES 40
#endif
void h_oid_capacity(void)
{
	uint8_t in[OIDBYTES];
	for (int i = 0; i < OIDBYTES; i++) in[i] = nondet_u8();
#ifdef ONE_BYTE_ARCS
	for (int i = 0; i < OIDBYTES; i++) ASSUME(in[i] < 0x80);   /* worst case for the arc count: every octet is one arc */
#endif
	struct { uint32_t nodes[ASN1_OID_MAX_NODES]; uint32_t guard[4]; } o;
	memset(&o, 0, sizeof(o)); for (int i = 0; i < 4; i++) o.guard[i] = 0xA5A5A5A5;
	size_t cnt = 0;
	int ret = asn1_object_identifier_from_octets(o.nodes, &cnt, in, OIDBYTES);
	for (int i = 0; i < 4; i++) CHECK(o.guard[i] == 0xA5A5A5A5, "never more than ASN1_OID_MAX_NODES arcs written");
	if (ret == 1) CHECK(cnt >= 2 && cnt <= ASN1_OID_MAX_NODES, "accepted OID has 2..32 arcs");
	V_REACH();
}

/* ---- SEQUENCE OF int capacity ---- */
#ifndef MAXN
#define MAXN 3
#endif
void h_seq_of_int_capacity(void)
{
	uint8_t in[2 + 3 * (MAXN + 2)];
	for (size_t i = 0; i < sizeof(in); i++) in[i] = nondet_u8();
	struct { int nums[MAXN]; int guard[2]; } o;
	memset(&o, 0, sizeof(o)); o.guard[0] = o.guard[1] = 0x5A5A5A5A;
	size_t cnt = 0; const uint8_t *p = in; size_t len = sizeof(in);
	int ret = asn1_sequence_of_int_from_der(o.nums, &cnt, MAXN, &p, &len);
	CHECK(o.guard[0] == 0x5A5A5A5A && o.guard[1] == 0x5A5A5A5A, "never more than max_nums integers written");
	if (ret == 1) CHECK(cnt <= MAXN, "count within the declared capacity");
	V_REACH();
}
void h_seq_of_int_roundtrip(void)
{
	int nums[2] = { nondet_int(), nondet_int() }, back[2];
	ASSUME(nums[0] >= 0 && nums[1] >= 0);
	uint8_t buf[20]; uint8_t *p = buf; size_t dry = 0, outlen = 0, cnt = 0;
	CHECK(asn1_sequence_of_int_to_der(nums, 2, NULL, &dry) == 1, "dry");
	CHECK(asn1_sequence_of_int_to_der(nums, 2, &p, &outlen) == 1 && outlen == dry, "dry-run length = bytes written");
	const uint8_t *cp = buf; size_t l = outlen;
	CHECK(asn1_sequence_of_int_from_der(back, &cnt, 2, &cp, &l) == 1 && cnt == 2 && l == 0 && back[0] == nums[0] && back[1] == nums[1], "round trip");
	V_REACH();
}

/* ---- asn1_types_get_item_by_index ---- */
void h_types_get_item(void)
{
	/* two INTEGER items with 1-byte contents */
	uint8_t d[6] = { 0x02, 0x01, nondet_u8(), 0x02, 0x01, nondet_u8() };
	int idx = nondet_int(); ASSUME(idx == 0 || idx == 1);
	const uint8_t *item; size_t itemlen;
	CHECK(asn1_types_get_item_by_index(d, sizeof(d), 0x02, idx, &item, &itemlen) == 1, "found");
	CHECK(itemlen == 1 && item == d + 2 + 3 * idx, "returns the content of item #index");
	V_REACH();
}

/* ---- string validators ---- */
/* RFC 3629 well-formedness restricted to the structural rule the library implements: lead byte class + continuation bytes */
static int utf8_struct_ok(const uint8_t *s, size_t n)
{
	size_t i = 0;
	if (n == 0) return 0;
	while (i < n) {
		size_t k;
		if ((s[i] & 0x80) == 0) k = 1; else if ((s[i] & 0xe0) == 0xc0) k = 2; else if ((s[i] & 0xf0) == 0xe0) k = 3; else if ((s[i] & 0xf8) == 0xf0) k = 4; else return 0;
		if (i + k > n) return 0;
		for (size_t j = 1; j < k; j++) if ((s[i + j] & 0xc0) != 0x80) return 0;
		i += k;
	}
	return 1;
}
#ifndef SMAX
#define SMAX 5
#endif
static void utf8_len(size_t n)
{
	uint8_t *s = malloc(n); ASSUME(s);
	for (size_t i = 0; i < n; i++) s[i] = nondet_u8();
	CHECK(asn1_string_is_utf8_string((const char *)s, n) == utf8_struct_ok(s, n), "UTF-8 validator accepts exactly the well-formed byte sequences (lead/continuation structure), multi-byte characters included");
}
void h_utf8(void)
{
#ifndef SMIN
#define SMIN 1
#endif
	size_t n = nondet_size(); ASSUME(n >= SMIN && n <= SMAX);
	for (size_t k = SMIN; k <= SMAX; k++) if (n == k) { utf8_len(k); break; }
	V_REACH();
}
static int printable_ref(uint8_t c)
{
	return (c >= '0' && c <= '9') || (c >= 'a' && c <= 'z') || (c >= 'A' && c <= 'Z') || c == ' ' || c == '\'' || c == '(' || c == ')'
		|| c == '+' || c == ',' || c == '-' || c == '.' || c == '/' || c == ':' || c == '=' || c == '?';
}
void h_printable_ia5(void)
{
	uint8_t s[3] = { nondet_u8(), nondet_u8(), nondet_u8() };
	int okp = printable_ref(s[0]) && printable_ref(s[1]) && printable_ref(s[2]);
	CHECK(asn1_string_is_printable_string((const char *)s, 3) == okp, "PrintableString = X.680 table 10 character set");
	int oki = s[0] < 128 && s[1] < 128 && s[2] < 128;
	CHECK(asn1_string_is_ia5_string((const char *)s, 3) == oki, "IA5String = 7-bit characters");
	V_REACH();
}
static uint8_t up(uint8_t c) { return (c >= 'a' && c <= 'z') ? c - 32 : c; }
void h_case_ignore_match(void)
{
	uint8_t a[3], b[3];
	for (int i = 0; i < 3; i++) { a[i] = nondet_u8(); b[i] = nondet_u8(); ASSUME(printable_ref(a[i]) && printable_ref(b[i]) && a[i] != ' ' && b[i] != ' '); }
	int eq = up(a[0]) == up(b[0]) && up(a[1]) == up(b[1]) && up(a[2]) == up(b[2]);
	CHECK(asn1_printable_string_case_ignore_match((const char *)a, 3, (const char *)b, 3) == eq, "case-insensitive comparison of every character");
	V_REACH();
}

/* ---- time strings ---- */
#ifndef TMAX
#define TMAX 0xffffffffULL
#endif
void h_time_roundtrip(void)
{
	uint64_t t = nondet_u64();
	ASSUME(t <= TMAX);
#ifdef TMIN
	ASSUME(t >= TMIN);
#endif
	int utc = nondet_bool();
	char str[16]; memset(str, 0, sizeof(str));
	int r = asn1_time_to_str(utc, (time_t)t, str);
	if (r == 1) {
		time_t back = -1;
		CHECK(asn1_time_from_str(utc, &back, str) == 1 && back == (time_t)t, "from_str(to_str(t)) = t");
	} else {
		CHECK(utc, "GeneralizedTime represents every time in range; only UTCTime may refuse (year > 2050)");
	}
	V_REACH();
}
