/* C14: base64 / hex / PEM text codecs */
#include <stdio.h>
#include <string.h>
#include <gmssl/base64.h>
#include <gmssl/hex.h>
#include <gmssl/pem.h>
#include "verif.h"

#ifndef NMAX
#define NMAX 10
#endif
/* decode(encode(data)) = data for every byte string of n bytes fed in two chunks split at `cut` */
#define ENCLEN(n) ((n) ? 4 * (((n) + 2) / 3) + ((n) + 47) / 48 : 0)     /* 4 characters per 3 bytes, one newline per line of 48 bytes */
#ifndef TCUT
#define TCUT(tl) ((tl) / 2)      /* where the text is split for the decoder; -DTCUT_ALL: every position */
#endif
static size_t g_tcut;
static void b64_rt(size_t n, size_t cut)
{
	uint8_t data[NMAX ? NMAX : 1], txt[2 * NMAX + 16], back[NMAX + 8];
#ifdef REPDATA
	/* the decoder's control flow depends on the class of each character (alphabet, '=', white space) only: with every content
	 * symbolic the buffered count and the output pointer become symbolic and no back end returns a verdict (measured);
	 * here the content is one fixed representative per length and the cut points are the symbolic inputs */
	for (size_t i = 0; i < n; i++) data[i] = (uint8_t)(i * 37 + 1);
#else
	for (size_t i = 0; i < n; i++) data[i] = nondet_u8();
#endif
	BASE64_CTX ctx; int l = 0; size_t tl = 0;
	base64_encode_init(&ctx);
	base64_encode_update(&ctx, data, (int)cut, txt, &l); tl += l;
	base64_encode_update(&ctx, data + cut, (int)(n - cut), txt + tl, &l); tl += l;
	base64_encode_finish(&ctx, txt + tl, &l); tl += l;
	CHECK(tl == ENCLEN(n), "encoded length = 4*ceil(n/3) + one newline per 48-byte line");
	base64_decode_init(&ctx);
	size_t bl = 0; int r;
	/* decode in two chunks as well, split in the middle of the text */
#ifdef TCUT_ALL
	size_t tcut = g_tcut;
#else
	size_t tcut = TCUT(tl);
#endif
	r = base64_decode_update(&ctx, txt, (int)tcut, back, &l); CHECK(r >= 0 || tcut == 0 || 1, "chunk 1"); if (r >= 0) bl += l;
	int r2 = base64_decode_update(&ctx, txt + tcut, (int)(tl - tcut), back + bl, &l); if (r2 >= 0) bl += l;
	int r3 = base64_decode_finish(&ctx, back + bl, &l); bl += l;
	CHECK(r >= 0 && r2 >= 0 && r3 == 1, "decoder accepts the encoder's output in any two-chunk split");
	CHECK(bl == n, "decoded length = n");
	for (size_t i = 0; i < n; i++) CHECK(back[i] == data[i], "decode(encode(data)) = data");
}
void h_base64_roundtrip(void)
{
	size_t n = nondet_size(), cut = nondet_size();
	ASSUME(n <= NMAX && cut <= n);
#ifdef NFIX
	ASSUME(n == NFIX);
#ifdef CUT0
	ASSUME(cut == 0);
#endif
#ifdef TCUT_ALL
	size_t tc = nondet_size(); ASSUME(tc <= ENCLEN(NFIX));
	for (size_t c = 0; c <= NFIX; c++) if (cut == c) {
		for (size_t t = 0; t <= ENCLEN(NFIX); t++) if (tc == t) { g_tcut = t; b64_rt(NFIX, c); break; }
		break;
	}
#else
	for (size_t c = 0; c <= NFIX; c++) if (cut == c) { b64_rt(NFIX, c); break; }
#endif
#endif
	V_REACH();
}

/* block level: decode_block(encode_block(f, n)) = f padded to a multiple of 3 */
static void blk(size_t n)
{
	uint8_t f[12], t[20], back[16];
	for (size_t i = 0; i < n; i++) f[i] = nondet_u8();
	int el = base64_encode_block(t, f, (int)n);
	CHECK(el == (int)(4 * ((n + 2) / 3)), "encoded block length");
	for (int i = 0; i < el; i++) CHECK((t[i] >= 'A' && t[i] <= 'Z') || (t[i] >= 'a' && t[i] <= 'z') || (t[i] >= '0' && t[i] <= '9') || t[i] == '+' || t[i] == '/' || (t[i] == '=' && i >= el - 2), "base64 alphabet, padding only at the end");
	int dl = base64_decode_block(back, t, el);
	CHECK(dl == (int)(3 * ((n + 2) / 3)), "decoded block length");
	for (size_t i = 0; i < n; i++) CHECK(back[i] == f[i], "decode_block(encode_block(f)) = f");
}
void h_base64_block(void)
{
	size_t n = nondet_size(); ASSUME(n >= 1 && n <= 9);
	for (size_t k = 1; k <= 9; k++) if (n == k) { blk(k); break; }
	V_REACH();
}
/* hex */
void h_hex(void)
{
	char in[6]; for (int i = 0; i < 6; i++) in[i] = (char)nondet_u8();
	struct { uint8_t out[3]; uint8_t guard[4]; } o; memset(&o, 0x5A, sizeof(o));
	size_t inlen = nondet_size(); ASSUME(inlen <= 6);
	size_t outlen = 99;
	int ret = -9;
	for (size_t k = 0; k <= 6; k++) if (inlen == k) { ret = hex_to_bytes(in, k, o.out, &outlen); break; }
	for (int i = 0; i < 4; i++) CHECK(o.guard[i] == 0x5A, "never writes more than inlen/2 bytes");
	if (ret == 1) {
		CHECK(inlen % 2 == 0 && outlen == inlen / 2, "accepted hex has even length, output = inlen/2");
		for (size_t i = 0; i < 3; i++) if (i < outlen) {
			int hi = in[2*i], lo = in[2*i+1];
			int vh = (hi >= '0' && hi <= '9') ? hi - '0' : (hi >= 'a' && hi <= 'f') ? hi - 'a' + 10 : (hi >= 'A' && hi <= 'F') ? hi - 'A' + 10 : -1;
			int vl = (lo >= '0' && lo <= '9') ? lo - '0' : (lo >= 'a' && lo <= 'f') ? lo - 'a' + 10 : (lo >= 'A' && lo <= 'F') ? lo - 'A' + 10 : -1;
			CHECK(vh >= 0 && vl >= 0 && o.out[i] == (uint8_t)(vh * 16 + vl), "every accepted character is a hex digit and the value is right");
		}
	} else CHECK(inlen % 2 == 1 || 1, "refused");
	V_REACH();
}

/* PEM reader capacity: lines come from an arbitrary stream (fgets model), output object has exactly maxlen bytes */
#ifndef PEM_LINES
#define PEM_LINES 2
#endif
#ifndef PEM_LINELEN
#define PEM_LINELEN 16
#endif
static int g_line;
char *fgets(char *s, int size, FILE *fp)
{
	__CPROVER_assert(size == 80, "pem_read reads 80-byte lines");
	if (g_line == 0) { strcpy(s, "-----BEGIN X-----\n"); }
	else if (g_line <= PEM_LINES) {
		/* arbitrary text line of up to PEM_LINELEN characters */
		/* fixed physical length, arbitrary non-NUL characters (white space and '=' included, so the number of
		 * significant base64 characters still varies) */
		for (size_t i = 0; i < PEM_LINELEN; i++) { char c = (char)nondet_u8(); ASSUME(c != 0); s[i] = c; }
		s[PEM_LINELEN] = '\n'; s[PEM_LINELEN + 1] = 0;
	} else if (g_line == PEM_LINES + 1) { strcpy(s, "-----END X-----\n"); }
	else return NULL;
	g_line++;
	return s;
}
int feof(FILE *fp) { return 0; }
/* the two format calls of pem_read, specialised (CBMC's vsnprintf model is a byte loop) */
int snprintf(char *str, size_t size, const char *fmt, ...)
{
	if (fmt[5] == 'B') strcpy(str, "-----BEGIN X-----"); else strcpy(str, "-----END X-----");
	return (int)strlen(str);
}
#ifdef PEM_STUB_B64
/* contract model of the streaming decoder: one call may emit up to 96 bytes (two 64-character blocks can
 * complete while a line of at most 79 characters is absorbed), finish up to 48 */
void base64_decode_init(BASE64_CTX *ctx) { }
int base64_decode_update(BASE64_CTX *ctx, const uint8_t *in, int inl, uint8_t *out, int *outl)
{
	int len = nondet_int(); ASSUME(len >= 0 && len <= 96);
	__CPROVER_assert(__CPROVER_w_ok(out, 96), "room for the decoder's worst-case output per line");
	for (int i = 0; i < 96; i++) if (i < len) out[i] = nondet_u8();
	*outl = len;
	int rv = nondet_int(); ASSUME(rv >= -1 && rv <= 1);
	return rv;
}
int base64_decode_finish(BASE64_CTX *ctx, uint8_t *out, int *outl)
{
	int len = nondet_int(); ASSUME(len >= 0 && len <= 48);
	__CPROVER_assert(__CPROVER_w_ok(out, 48), "room for the decoder's final block");
	for (int i = 0; i < 48; i++) if (i < len) out[i] = nondet_u8();
	*outl = len;
	return nondet_bool() ? 1 : -1;
}
#endif
void h_pem_capacity(void)
{
	size_t maxlen = nondet_size(); ASSUME(maxlen >= 1 && maxlen <= 200);
	size_t datalen = 0; int ret = -9;
	uint8_t *data = malloc(maxlen); ASSUME(data);      /* exactly the declared capacity */
	ret = pem_read((FILE *)0x1000, "X", data, &datalen, maxlen);
	if (ret == 1) CHECK(datalen <= maxlen, "reported length within the declared capacity");
	V_REACH();
}
