/* C19: record protection and SM2 decryption never reach a dumping helper, on success and on every failure path.
 * (M5 monitor; crypto layers are arbitrary-result stubs so that all outcomes are explored.) */
#include <stdio.h>
#include <string.h>
#include <gmssl/tls.h>
#include <gmssl/sm2.h>
#include <gmssl/sm3.h>
#include <gmssl/sm4.h>
#include <gmssl/block_cipher.h>
#include "verif.h"
extern int g_mon_active;
static const BLOCK_CIPHER sm4_desc = { 0 };
const BLOCK_CIPHER *BLOCK_CIPHER_sm4(void) { return &sm4_desc; }
int sm4_gcm_decrypt(const SM4_KEY *key, const uint8_t *iv, size_t ivlen, const uint8_t *aad, size_t aadlen,
	const uint8_t *in, size_t inlen, const uint8_t *tag, size_t taglen, uint8_t *out)
{ if (nondet_bool()) return -1; for (size_t i = 0; i < inlen; i++) out[i] = nondet_u8(); return 1; }
int sm4_gcm_encrypt(const SM4_KEY *key, const uint8_t *iv, size_t ivlen, const uint8_t *aad, size_t aadlen,
	const uint8_t *in, size_t inlen, uint8_t *out, size_t taglen, uint8_t *tag)
{ if (nondet_bool()) return -1; for (size_t i = 0; i < inlen; i++) out[i] = nondet_u8(); for (size_t i = 0; i < taglen; i++) tag[i] = nondet_u8(); return 1; }
void sm4_cbc_decrypt_blocks(const SM4_KEY *key, uint8_t iv[16], const uint8_t *in, size_t nblocks, uint8_t *out) { for (size_t i = 0; i < 16 * nblocks; i++) out[i] = nondet_u8(); }
void sm4_cbc_encrypt_blocks(const SM4_KEY *key, uint8_t iv[16], const uint8_t *in, size_t nblocks, uint8_t *out) { for (size_t i = 0; i < 16 * nblocks; i++) out[i] = nondet_u8(); }
void sm3_hmac_update(SM3_HMAC_CTX *c, const uint8_t *d, size_t n) { }
void sm3_hmac_finish(SM3_HMAC_CTX *c, uint8_t mac[32]) { for (int i = 0; i < 32; i++) mac[i] = nondet_u8(); }
int rand_bytes(uint8_t *buf, size_t len) { if (nondet_bool()) return -1; for (size_t i = 0; i < len; i++) buf[i] = nondet_u8(); return 1; }

void h_tls13_records_quiet(void)
{
	BLOCK_CIPHER_KEY key; key.cipher = &sm4_desc;
	uint8_t iv[12], seq[8], in[40], out[64]; int type; size_t outlen;
	v_havoc(iv, 12); v_havoc(seq, 8); v_havoc(in, 40);
	g_mon_active = 1;
	(void)tls13_gcm_decrypt(&key, iv, seq, in, 40, &type, out, &outlen);
	(void)tls13_gcm_encrypt(&key, iv, seq, 23, in, 20, 2, out, &outlen);
	g_mon_active = 0;
	V_REACH();
}
void h_tls_cbc_records_quiet(void)
{
	SM3_HMAC_CTX h; SM4_KEY k; uint8_t seq[8], hdr[5] = {23, 1, 1, 0, 20}, in[80], out[96]; size_t outlen;
	v_havoc(seq, 8); v_havoc(in, 80);
	g_mon_active = 1;
	(void)tls_cbc_decrypt(&h, &k, seq, hdr, in, 80, out, &outlen);
	(void)tls_cbc_encrypt(&h, &k, seq, hdr, in, 20, out, &outlen);
	g_mon_active = 0;
	V_REACH();
}

