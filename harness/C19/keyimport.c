/* C12 (container consistency) + C19 (no dump) + C14 (ECPrivateKey DER): real sm2_private_key_to_der / _from_der,
 * sm2_public_key_to/from_der, asn1.c, ec.c.  Points are affine stand-ins: [k]G := (k, ~k), octets = 04||X||Y. */
#include <stdio.h>
#include <string.h>
#include <gmssl/sm2.h>
#include "verif.h"
extern int g_mon_active;
void sm2_z256_point_mul_generator(SM2_Z256_POINT *R, const sm2_z256_t k) { memset(R, 0, sizeof(*R)); for (int i = 0; i < 4; i++) { R->X[i] = k[i]; R->Y[i] = ~k[i]; } R->Z[0] = 1; }
int sm2_z256_point_to_uncompressed_octets(const SM2_Z256_POINT *P, uint8_t out[65])
{ out[0] = 4; sm2_z256_to_bytes(P->X, out + 1); sm2_z256_to_bytes(P->Y, out + 33); return 1; }
int sm2_z256_point_to_bytes(const SM2_Z256_POINT *P, uint8_t out[64]) { sm2_z256_to_bytes(P->X, out); sm2_z256_to_bytes(P->Y, out + 32); return 1; }
int sm2_z256_point_get_xy(const SM2_Z256_POINT *P, uint64_t x[4], uint64_t y[4]) { memcpy(x, P->X, 32); if (y) memcpy(y, P->Y, 32); return 1; }
static int g_octets_verdict;
int sm2_z256_point_from_octets(SM2_Z256_POINT *P, const uint8_t *in, size_t inlen)
{ if (inlen != 65 || in[0] != 4 || g_octets_verdict != 1) return -1; memset(P, 0, sizeof(*P)); sm2_z256_from_bytes(P->X, in + 1); sm2_z256_from_bytes(P->Y, in + 33); P->Z[0] = 1; return 1; }
int sm2_z256_point_equ(const SM2_Z256_POINT *P, const SM2_Z256_POINT *Q)
{ for (int i = 0; i < 4; i++) if (P->X[i] != Q->X[i] || P->Y[i] != Q->Y[i]) return 0; return 1; }

void h_private_key_container(void)
{
	SM2_KEY key, in; memset(&key, 0, sizeof(key));
	uint64_t d[4] = { nondet_u64(), nondet_u64(), nondet_u64(), nondet_u64() };
	for (int i = 0; i < 4; i++) key.private_key[i] = d[i];
	/* embedded public key: arbitrary (possibly not [d]G) */
	for (int i = 0; i < 4; i++) { key.public_key.X[i] = nondet_u64(); key.public_key.Y[i] = nondet_u64(); }
	g_octets_verdict = nondet_bool();
	uint8_t buf[160]; uint8_t *p = buf; size_t len = 0, dry = 0;
	CHECK(sm2_private_key_to_der(&key, NULL, &dry) == 1, "dry");
	CHECK(sm2_private_key_to_der(&key, &p, &len) == 1 && len == dry && len <= sizeof(buf), "dry-run length = bytes written");
	const uint8_t *cp = buf; size_t l = len;
	g_mon_active = 1;
	int ret = sm2_private_key_from_der(&in, &cp, &l);
	g_mon_active = 0;
	int matches = 1; for (int i = 0; i < 4; i++) if (key.public_key.X[i] != d[i] || key.public_key.Y[i] != ~d[i]) matches = 0;
	if (ret == 1) {
		V_COVER("container accepted");
		CHECK(matches, "a container whose embedded public key differs from [d]G in any coordinate bit is rejected");
		CHECK(g_octets_verdict == 1, "embedded point passed the point validator");
		CHECK(l == 0, "consumed exactly");
		for (int i = 0; i < 4; i++) CHECK(in.private_key[i] == d[i], "same scalar");
	}
	V_REACH();
}
