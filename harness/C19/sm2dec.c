/* C19: sm2_do_decrypt / sm2_decrypt never reach a dumping helper (all outcomes of the crypto layers) */
#include <stdio.h>
#include <string.h>
#include <gmssl/sm2.h>
#include <gmssl/sm3.h>
#include "verif.h"
extern int g_mon_active;
int sm2_z256_point_from_bytes(SM2_Z256_POINT *P, const uint8_t in[64]) { int v = nondet_int(); ASSUME(v >= -1 && v <= 1); memset(P, 1, sizeof(*P)); return v; }
void sm2_z256_point_mul(SM2_Z256_POINT *R, const sm2_z256_t k, const SM2_Z256_POINT *P) { memset(R, 2, sizeof(*R)); }
int sm2_z256_point_to_bytes(const SM2_Z256_POINT *P, uint8_t out[64]) { for (int i = 0; i < 64; i++) out[i] = nondet_u8(); return 1; }
void sm3_init(SM3_CTX *c) { } void sm3_update(SM3_CTX *c, const uint8_t *d, size_t n) { }
void sm3_finish(SM3_CTX *c, uint8_t d[32]) { for (int i = 0; i < 32; i++) d[i] = nondet_u8(); }
void h_sm2_decrypt_quiet(void)
{
	SM2_KEY key; memset(&key, 0, sizeof(key));
	SM2_CIPHERTEXT C; v_havoc(&C, sizeof(C)); C.ciphertext_size = 3;
	uint8_t out[16]; size_t outlen;
	g_mon_active = 1;
	(void)sm2_do_decrypt(&key, &C, out, &outlen);
	g_mon_active = 0;
	V_REACH();
}
