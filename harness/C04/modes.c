/* C04-m: SM4 modes of operation against independent statements of SP 800-38A / GB/T 17964 written here over the
 * same ideal block cipher (M3: sm4_encrypt = uninterpreted permutation with inverse axioms).
 * Real src/sm4_cbc.c, sm4_ctr.c, sm4_cfb.c, sm4_ofb.c and the block-level loops of src/sm4.c
 * (ENABLE_SMALL_FOOTPRINT variants, which call sm4_encrypt). */
#include <stdio.h>
#include <string.h>
#include <gmssl/sm4.h>
#include "verif.h"

#ifndef N
#define N 20
#endif
#define NB ((N + 15) / 16 * 16 + 32)
static uint8_t raw[16], iv0[16], pt[N ? N : 1];
static SM4_KEY ek, dk;
static void setup(void)
{
	for (int i = 0; i < 16; i++) { raw[i] = nondet_u8(); iv0[i] = nondet_u8(); }
	for (int i = 0; i < N; i++) pt[i] = nondet_u8();
	sm4_set_encrypt_key(&ek, raw); sm4_set_decrypt_key(&dk, raw);
}
static void E(const uint8_t in[16], uint8_t out[16]) { sm4_encrypt(&ek, in, out); }

/* ---------- CFB-s ---------- */
static void ref_cfb_enc(size_t s, const uint8_t *p, size_t n, uint8_t *c)
{
	uint8_t I[16], O[16]; memcpy(I, iv0, 16);
	for (size_t off = 0; off < n; off += s) {
		size_t len = n - off < s ? n - off : s;
		E(I, O);
		for (size_t i = 0; i < len; i++) c[off + i] = p[off + i] ^ O[i];
		if (len == s) { uint8_t T[16]; for (size_t i = 0; i < 16 - s; i++) T[i] = I[s + i]; for (size_t i = 0; i < s; i++) T[16 - s + i] = c[off + i]; memcpy(I, T, 16); }
	}
}
/* streaming in two chunks (sizes concrete on this path), output sizes checked against the dry-run answers */
static void cfb_stream_case(size_t s, size_t k, const uint8_t *ref)
{
	SM4_CFB_CTX c; uint8_t so[NB]; size_t total = 0, l = 0, dry = 0;
	CHECK(sm4_cfb_encrypt_init(&c, s, raw, iv0) == 1, "init");
	if (k) { CHECK(sm4_cfb_encrypt_update(&c, pt, k, NULL, &dry) == 1, "dry"); CHECK(sm4_cfb_encrypt_update(&c, pt, k, so, &l) == 1 && l <= dry, "update writes no more than the dry-run size"); total += l; }
	if (N - k) { CHECK(sm4_cfb_encrypt_update(&c, pt + k, N - k, NULL, &dry) == 1, "dry"); CHECK(sm4_cfb_encrypt_update(&c, pt + k, N - k, so + total, &l) == 1 && l <= dry, "update writes no more than the dry-run size"); total += l; }
	CHECK(sm4_cfb_encrypt_finish(&c, NULL, &dry) == 1, "dry finish");
	CHECK(sm4_cfb_encrypt_finish(&c, so + total, &l) == 1 && l <= dry, "finish writes no more than the dry-run size"); total += l;
	CHECK(total == N, "streaming output length");
	for (int i = 0; i < N; i++) CHECK(so[i] == ref[i], "streaming CFB = one-shot, any 2-way chunking");
}
static void cfb_case(size_t s)
{
	uint8_t ref[N ? N : 1], ct[NB], back[NB], iv[16];
	ref_cfb_enc(s, pt, N, ref);
	memcpy(iv, iv0, 16); sm4_cfb_encrypt(&ek, s, iv, pt, N, ct);
	for (int i = 0; i < N; i++) CHECK(ct[i] == ref[i], "sm4_cfb_encrypt = CFB-s of SP 800-38A");
	memcpy(iv, iv0, 16); sm4_cfb_decrypt(&ek, s, iv, ct, N, back);
	for (int i = 0; i < N; i++) CHECK(back[i] == pt[i], "sm4_cfb_decrypt inverts sm4_cfb_encrypt");
	memcpy(iv, iv0, 16); sm4_cfb_decrypt(&ek, s, iv, ct, N, ct);          /* in place */
	for (int i = 0; i < N; i++) CHECK(ct[i] == pt[i], "sm4_cfb_decrypt in place");
	size_t cut = nondet_size();
#ifndef CMIN
#define CMIN 0
#define CMAX N
#endif
	ASSUME(cut >= CMIN && cut <= CMAX && cut <= N);
	for (size_t k = CMIN; k <= CMAX && k <= N; k++) if (cut == k) { cfb_stream_case(s, k, ref); break; }
}
void h_cfb(void)
{
	setup();
	size_t s = nondet_size();
#ifndef SMIN
#define SMIN 1
#define SMAX 16
#endif
	ASSUME(s >= SMIN && s <= SMAX);
	for (size_t k = SMIN; k <= SMAX; k++) if (s == k) { cfb_case(k); break; }
	V_REACH();
}

/* ---------- CTR (128-bit big-endian counter) and OFB ---------- */
static void incr128(uint8_t c[16]) { for (int i = 15; i >= 0; i--) { c[i]++; if (c[i]) break; } }
void h_ctr(void)
{
	setup();
	uint8_t ref[N ? N : 1], out[NB], ctr[16], O[16];
	memcpy(ctr, iv0, 16);
	for (size_t off = 0; off < N; off += 16) { E(ctr, O); incr128(ctr); for (size_t i = 0; i < 16 && off + i < N; i++) ref[off + i] = pt[off + i] ^ O[i]; }
	uint8_t c2[16]; memcpy(c2, iv0, 16);
	sm4_ctr_encrypt(&ek, c2, pt, N, out);
	for (int i = 0; i < N; i++) CHECK(out[i] == ref[i], "sm4_ctr_encrypt = CTR with a 128-bit big-endian counter");
	memcpy(c2, iv0, 16); sm4_ctr_encrypt(&ek, c2, out, N, out);       /* decrypt = encrypt, in place */
	for (int i = 0; i < N; i++) CHECK(out[i] == pt[i], "CTR decrypt(encrypt(m)) = m, in place");
	size_t cut = nondet_size(); ASSUME(cut <= N);
	SM4_CTR_CTX c; uint8_t so[NB]; size_t total = 0, l = 0, dry = 0;
	CHECK(sm4_ctr_encrypt_init(&c, raw, iv0) == 1, "init");
	for (size_t k = 0; k <= N; k++) if (cut == k) {
		if (k) { CHECK(sm4_ctr_encrypt_update(&c, pt, k, NULL, &dry) == 1, "dry"); CHECK(sm4_ctr_encrypt_update(&c, pt, k, so, &l) == 1 && l <= dry, "update within dry-run size"); total += l; }
		if (N - k) { CHECK(sm4_ctr_encrypt_update(&c, pt + k, N - k, NULL, &dry) == 1, "dry"); CHECK(sm4_ctr_encrypt_update(&c, pt + k, N - k, so + total, &l) == 1 && l <= dry, "update within dry-run size"); total += l; }
		break;
	}
	CHECK(sm4_ctr_encrypt_finish(&c, NULL, &dry) == 1, "dry finish");
	CHECK(sm4_ctr_encrypt_finish(&c, so + total, &l) == 1 && l <= dry, "finish within dry-run size"); total += l;
	CHECK(total == N, "streaming output length");
	for (int i = 0; i < N; i++) CHECK(so[i] == ref[i], "streaming CTR = one-shot, any 2-way chunking");
	V_REACH();
}
void h_ctr_incr(void)
{
	/* counter arithmetic alone, exact: after one block the counter is +1 as a 128-bit big-endian integer */
	setup();
	uint8_t c[16], in[16] = {0}, out[16]; memcpy(c, iv0, 16);
	sm4_ctr_encrypt_blocks(&ek, c, in, 1, out);
	unsigned __CPROVER_bitvector[128] a = 0, b = 0;
	for (int i = 0; i < 16; i++) { a = (a << 8) | iv0[i]; b = (b << 8) | c[i]; }
	CHECK(b == a + 1, "CTR counter + 1 mod 2^128");
	memcpy(c, iv0, 16);
	sm4_ctr32_encrypt_blocks(&ek, c, in, 1, out);
	for (int i = 0; i < 12; i++) CHECK(c[i] == iv0[i], "CTR32 leaves the 96-bit prefix untouched");
	uint32_t x = ((uint32_t)iv0[12] << 24) | (iv0[13] << 16) | (iv0[14] << 8) | iv0[15], y = ((uint32_t)c[12] << 24) | (c[13] << 16) | (c[14] << 8) | c[15];
	CHECK(y == x + 1, "CTR32 low word + 1 mod 2^32");
	V_REACH();
}
void h_ofb(void)
{
	setup();
	uint8_t ref[N ? N : 1], out[NB], O[16], iv[16];
	memcpy(O, iv0, 16);
	for (size_t off = 0; off < N; off += 16) { uint8_t T[16]; E(O, T); memcpy(O, T, 16); for (size_t i = 0; i < 16 && off + i < N; i++) ref[off + i] = pt[off + i] ^ O[i]; }
	memcpy(iv, iv0, 16); sm4_ofb_encrypt(&ek, iv, pt, N, out);
	for (int i = 0; i < N; i++) CHECK(out[i] == ref[i], "sm4_ofb_encrypt = OFB of SP 800-38A");
	memcpy(iv, iv0, 16); sm4_ofb_encrypt(&ek, iv, out, N, out);
	for (int i = 0; i < N; i++) CHECK(out[i] == pt[i], "OFB decrypt(encrypt(m)) = m, in place");
	V_REACH();
}

/* ---------- CBC with PKCS#7 padding ---------- */
void h_cbc_padding(void)
{
	setup();
	size_t padded = (N / 16 + 1) * 16;
	uint8_t ref[NB], buf[NB], out[NB], back[NB], prev[16];
	memcpy(buf, pt, N); for (size_t i = N; i < padded; i++) buf[i] = (uint8_t)(padded - N);
	memcpy(prev, iv0, 16);
	for (size_t off = 0; off < padded; off += 16) { uint8_t X[16]; for (int i = 0; i < 16; i++) X[i] = buf[off + i] ^ prev[i]; E(X, ref + off); memcpy(prev, ref + off, 16); }
	size_t outlen = 0, backlen = 0;
	CHECK(sm4_cbc_padding_encrypt(&ek, iv0, pt, N, out, &outlen) == 1 && outlen == padded, "padded length = 16 * (n/16 + 1)");
	for (size_t i = 0; i < padded; i++) CHECK(out[i] == ref[i], "sm4_cbc_padding_encrypt = CBC over PKCS#7 padded message");
	CHECK(sm4_cbc_padding_decrypt(&dk, iv0, out, outlen, back, &backlen) == 1 && backlen == N, "decrypt restores the length");
	for (int i = 0; i < N; i++) CHECK(back[i] == pt[i], "decrypt(encrypt(m)) = m");
	V_REACH();
}

/* arbitrary ciphertext: acceptance implies a well-formed final padding length, reported length consistent */
void h_cbc_padding_arbitrary(void)
{
	setup();
	uint8_t ct[32], out[32], blk[16]; size_t outlen = 0;
	for (int i = 0; i < 32; i++) ct[i] = nondet_u8();
	int two = nondet_bool();
	int ret = two ? sm4_cbc_padding_decrypt(&dk, iv0, ct, 32, out, &outlen) : sm4_cbc_padding_decrypt(&dk, iv0, ct, 16, out, &outlen);
	size_t n = two ? 32 : 16;
	sm4_encrypt(&dk, ct + n - 16, blk);                        /* D_k(last block) */
	const uint8_t *prev = two ? ct : iv0;
	uint8_t pad = blk[15] ^ prev[15];
	if (ret == 1) {
		V_COVER("padded ciphertext accepted");
		CHECK(pad >= 1 && pad <= 16, "accepted => final padding length in 1..16");
		CHECK(outlen == n - pad, "reported plaintext length = input - padding");
	}
	if (pad >= 1 && pad <= 16) { int allp = 1; for (int i = 0; i < 16; i++) if (i >= 16 - pad && (uint8_t)(blk[i] ^ prev[i]) != pad) allp = 0; if (allp) CHECK(ret == 1, "every correctly padded ciphertext is accepted"); }
	V_REACH();
}
