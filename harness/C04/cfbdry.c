/* C04: CFB-s streaming from an arbitrary context state: update writes exactly the whole segments of (buffered + input) and never more than the size it
 * reports when queried with a null output buffer; the rest stays buffered.  The one-shot segment cipher below is a length recorder. */
#include <stdio.h>
#include <string.h>
#include <gmssl/sm4.h>
#include "verif.h"
static size_t g_written;
void sm4_cfb_encrypt(const SM4_KEY *key, size_t sbytes, uint8_t iv[16], const uint8_t *in, size_t inlen, uint8_t *out) { __CPROVER_assert(__CPROVER_w_ok(out, inlen), "segment output inside the caller's buffer"); g_written += inlen; }
void sm4_cfb_decrypt(const SM4_KEY *key, size_t sbytes, uint8_t iv[16], const uint8_t *in, size_t inlen, uint8_t *out) { __CPROVER_assert(__CPROVER_w_ok(out, inlen), "segment output inside the caller's buffer"); g_written += inlen; }
#ifndef INMAX
#define INMAX 70
#endif
void h_cfb_dryrun(void)
{
	SM4_CFB_CTX c; memset(&c, 0, sizeof(c));
	size_t s = nondet_size(), b = nondet_size(), n = nondet_size(); ASSUME(s >= 1 && s <= 16 && b < s && n >= 1 && n <= INMAX);
	c.sbytes = s; c.block_nbytes = b;
	static uint8_t in[INMAX]; size_t dry = 0, l = 0;
	int dec = nondet_bool();
	int r0 = dec ? sm4_cfb_decrypt_update(&c, in, n, NULL, &dry) : sm4_cfb_encrypt_update(&c, in, n, NULL, &dry);
	CHECK(r0 == 1 && c.block_nbytes == b, "the size query succeeds and changes nothing");
	uint8_t *out = malloc(dry); ASSUME(out || dry == 0);          /* a caller that trusts the answer */
	int r = dec ? sm4_cfb_decrypt_update(&c, in, n, out, &l) : sm4_cfb_encrypt_update(&c, in, n, out, &l);
	CHECK(r == 1, "update succeeds");
	CHECK(l == s * ((b + n) / s) && g_written == l, "update writes the whole segments of buffered + input");
	CHECK(l <= dry, "never more than the size reported for a null output buffer");
	CHECK(c.block_nbytes == (b + n) % s, "the remainder stays buffered");
	V_REACH();
}
